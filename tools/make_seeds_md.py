#!/usr/bin/env python3
"""Write SEEDS.md from the output of tools/regress_parallel.py (one or more result files; later lines win)."""
import re, sys, collections
res = collections.OrderedDict()
for f in sys.argv[1:]:
    for line in open(f):
        m = re.match(r"^(\S+) (C\d\d) (CAUGHT|MISSED|ERROR) (\d+)s", line)
        if m:
            res[(m.group(1), m.group(2))] = (m.group(3), m.group(4))
isb = lambda n: re.match(r"^B\d\d_", n) is not None
seeds = [(k, v) for k, v in res.items() if not isb(k[0])]
benign = [(k, v) for k, v in res.items() if isb(k[0])]
caught = sum(1 for k, v in seeds if v[0] == "CAUGHT")
out = []
out.append("# Seeded changes, own mutants and benign patches: last full regression\n")
out.append("`tools/regress_parallel.py --lanes N --benign` applies each change in a scratch worktree of /repo (never in /repo")
out.append("itself), runs `./check <property> --tier quick` of a copy of this tree against it, and throws the worktree away.")
out.append("CAUGHT = exit 1 with a VIOLATION line; MISSED = exit 0. Expected MISSED: the negative control `M18a` (a harmless")
out.append("change) and every line of the benign patches (behaviour-preserving refactorings run through all twenty checks).\n")
out.append("%d changes (seeded rounds 1-7, reverse patches of the three repaired defects, own mutants): %d CAUGHT, %d not." % (len(seeds), caught, len(seeds) - caught))
notc = [k[0] for k, v in seeds if v[0] != "CAUGHT"]
out.append("Not caught: %s.\n" % (", ".join(notc) if notc else "none"))
alarms = [(k, v) for k, v in benign if v[0] != "MISSED"]
out.append("Benign patches: %d (patch, property) runs, %d alarms%s.\n" % (len(benign), len(alarms), "" if not alarms else ": " + ", ".join("%s/%s" % k for k, v in alarms)))
out.append("| change | property | result | time |\n|---|---|---|---|")
for (n, p), (r, t) in sorted(seeds):
    out.append("| %s | %s | %s | %ss |" % (n, p, r, t))
out.append("\n## Benign patches (expected: no alarm)\n")
out.append("| patch | checks run | alarms |\n|---|---|---|")
by = collections.OrderedDict()
for (n, p), (r, t) in sorted(benign):
    by.setdefault(n, []).append((p, r))
for n, l in by.items():
    out.append("| %s | %d | %s |" % (n, len(l), ", ".join(p for p, r in l if r != "MISSED") or "none"))
open("/verif/SEEDS.md", "w").write("\n".join(out) + "\n")
print("seeds", len(seeds), "caught", caught, "benign runs", len(benign), "alarms", len(alarms))
