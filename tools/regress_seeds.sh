#!/bin/bash
# Apply every seeded change / own mutant to /repo in turn, run the quick check of its property, undo it.
# Writes one line per change to stdout: <name> <property> <CAUGHT|MISSED|ERROR> <seconds>
cd "$(dirname "$0")/.."
for d in seeded/*/ mutants/*.diff; do
  if [ -d "$d" ]; then
    name=$(basename $d); patch=$d/patch.diff
    prop=$(python3 -c "import json;print(json.load(open('$d/meta.json'))['property'])")
  else
    name=$(basename $d .diff); patch=$d
    prop=$(echo $name | sed -E 's/^M[0-9]+[a-z]?_(C[0-9]+)_.*/\1/')
  fi
  s=$(date +%s)
  out=$(tools/seedrun.py $patch $prop 2>&1 | grep SUMMARY | sed -E 's/.*=(CAUGHT|MISSED|ERROR).*/\1/')
  e=$(date +%s)
  echo "$name $prop ${out:-ERROR} $((e-s))s"
done
