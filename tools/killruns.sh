#!/bin/bash
# stop any running check driver and vh workers (used interactively)
for p in $(pgrep -f "verif/check"); do [ "$p" != "$$" ] && kill $p 2>/dev/null; done
for p in $(pgrep -x vh); do kill $p 2>/dev/null; done
sleep 1
echo "vh left: $(pgrep -x vh | wc -l)"
