#!/usr/bin/env python3
"""Regenerate MANIFEST.json from props_meta.json (claimed checks) and properties.jsonl (everything else is not_applicable/not yet claimed)."""
import json, subprocess
meta = json.load(open('/verif/props_meta.json'))
props = [json.loads(l) for l in open('/verif/properties.jsonl')]
hooks = subprocess.run(['git', '-C', '/repo', 'log', '--format=%H %s'], capture_output=True, text=True).stdout.splitlines()
hook_commits = [l.split()[0] for l in hooks if l.split(' ', 1)[1].startswith('verif:')]
ENGINES = {
 'seqx': {"name": "seqx", "path": "harness/src (writer.rs, wmodel.rs, fmt*.rs, num.rs, calls.rs, sock.rs, macros.rs, sweep.rs)", "kind_free_text": "sequential explicit-state / bounded-exhaustive explorer driving the real public API with scripted writers, sinks and real loopback sockets; reference models as judges"},
 'sched': {"name": "sched", "path": "harness/src (rt.rs, explore.rs, hb.rs, sc_*.rs)", "kind_free_text": "controlled scheduler over real OS threads (baton passing through the cfg(cadence_verif) shim), stateless DFS over all interleavings with iterative preemption bounding, vector-clock happens-before checker"},
}
checks = []
for p in props:
    pid = p['id']
    if pid not in meta:
        continue
    m = meta[pid]
    checks.append({
        "property_id": pid,
        "quick_cmd": "./check %s --tier quick" % pid,
        "thorough_cmd": "./check %s --tier thorough" % pid,
        "evidence_file": "/verif/evidence/%s.json" % pid,
        "replay_cmd_template": "./check %s --replay {path}" % pid,
        "engine": m.get("engine", "seqx"),
        "level_claimed": {"category": m["level"], "text": m.get("level_text", m.get("explanation", "")), "design_ref": m.get("design_ref", "DESIGN.md section 5")},
        "level_note": m.get("level_note", "; ".join(m.get("assumptions", []))),
        "technique": m.get("technique", "bounded exhaustive exploration of the real implementation against a reference model"),
    })
for e in ENGINES.values():
    e["serves_properties"] = [c["property_id"] for c in checks if c["engine"] == e["name"]]
na = [{"property_id": p['id'], "reason": "check not built yet (work in progress); planned as described in DESIGN.md"} for p in props if p['id'] not in meta]
man = {
 "version": 1,
 "setup_cmd": "./check --build",
 "hooks": {"guard": "cadence_verif", "enable": "RUSTC_BOOTSTRAP=1 RUSTFLAGS=\"--cfg cadence_verif\" (rustc cfg flag; both set by ./check for the harness build, which compiles /repo/cadence and /repo/cadence-macros from the working tree; RUSTC_BOOTSTRAP lets the stable compiler accept the two feature gates the guarded Arc wrapper needs)",
           "baseline_off_cmd": "cd /repo && cargo test --workspace --no-fail-fast --offline",
           "source_commits": hook_commits, "add_only": True},
 "engines": list(ENGINES.values()),
 "checks": checks,
 "notes": "All checks are exhaustive explorations of stated bounded spaces executed on the real code; see DESIGN.md. Known findings / fixed defects: KNOWN_FINDINGS.txt.",
 "not_applicable": na,
}
json.dump(man, open('/verif/MANIFEST.json', 'w'), indent=1)
print("checks:", [c["property_id"] for c in checks], "unclaimed:", len(na))
