#!/usr/bin/env python3
"""Apply a seeded change to /repo, run the given checks, undo it. Usage: seedrun.py <patch.diff> <PROP>... [--tier t]"""
import subprocess, sys, os, time
args = sys.argv[1:]
tier = "quick"
if "--tier" in args:
    i = args.index("--tier"); tier = args[i + 1]; del args[i:i + 2]
patch, props = args[0], args[1:]
st = subprocess.run(["git", "-C", "/repo", "status", "--porcelain", "--untracked-files=no"], capture_output=True, text=True).stdout.strip()
if st:
    print("refusing: /repo has uncommitted changes:\n" + st); sys.exit(2)
if subprocess.run(["git", "-C", "/repo", "apply", os.path.abspath(patch)]).returncode != 0:
    print("patch does not apply"); sys.exit(2)
res = {}
try:
    for p in props:
        t = time.time()
        root = os.path.dirname(os.path.dirname(os.path.abspath(__file__)))  # works from a copy of /verif too
        r = subprocess.run([os.path.join(root, "check"), p, "--tier", tier], capture_output=True, text=True, cwd=root)
        lines = [l for l in r.stdout.splitlines() if l.startswith(("VIOLATION", "  what", "MACHINERY", "KNOWN"))]
        res[p] = r.returncode
        print("== %s exit=%d (%.0fs)" % (p, r.returncode, time.time() - t))
        for l in lines[:4]:
            print("   " + l[:400])
        if r.returncode == 2:
            print(r.stdout[-1500:])
finally:
    subprocess.run(["git", "-C", "/repo", "checkout", "--", "."])
print("SUMMARY", patch, " ".join("%s=%s" % (p, {0: "MISSED", 1: "CAUGHT", 2: "ERROR"}.get(c, c)) for p, c in res.items()))
