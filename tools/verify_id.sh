#!/bin/bash
/verif/tools/verify_seed.sh $1 A; /verif/tools/verify_seed.sh $1 B
