#!/bin/bash
# verify_seed.sh <ID> <A|B>: confirm a seeded change in its scratch worktree /tmp/wt/<ID>:
# applies, builds (both cfg modes), the existing suite gives baseline results, the demo fails with it and passes without.
ID=$1; S=$2; W=/tmp/wt/$ID; D=$W/SEED_$S
cd $W || exit 2
git checkout -q -- . ; rm -f cadence/tests/seed_demo.rs cadence-macros/tests/seed_demo.rs
crate=$(python3 -c "import json;print(json.load(open('$D/meta.json')).get('crate_for_demo','cadence'))")
out=$D/verify.log; : > $out
git apply $D/patch.diff || { echo "$ID $S APPLY-FAIL"; exit 1; }
export CARGO_TARGET_DIR=$W/target
cargo build --workspace --offline >>$out 2>&1 || { echo "$ID $S BUILD-FAIL"; git checkout -q -- .; exit 1; }
RUSTC_BOOTSTRAP=1 RUSTFLAGS="--cfg cadence_verif" CARGO_TARGET_DIR=$W/target_on cargo build --workspace --offline >>$out 2>&1 || { echo "$ID $S BUILD-ON-FAIL"; git checkout -q -- .; exit 1; }
suite=$(timeout 300 cargo test --workspace --no-fail-fast --offline 2>&1 | grep -E "^test result" | tr '\n' ';')
cp $D/demo.rs $crate/tests/seed_demo.rs
with=$(timeout 200 cargo test -p $crate --test seed_demo --offline 2>&1 | grep -E "^test result" | head -1)
git checkout -q -- .
without=$(timeout 200 cargo test -p $crate --test seed_demo --offline 2>&1 | grep -E "^test result" | head -1)
rm -f $crate/tests/seed_demo.rs
echo "$ID $S | suite: $suite | demo with change: $with | demo without: $without" | tee -a $out
