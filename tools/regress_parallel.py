#!/usr/bin/env python3
"""Regression of the seeded changes, the own mutants and the benign patches, several at a time.

/repo's working tree is never touched: lane k works in its own scratch git worktree of /repo's HEAD
(<base>/k/repo) and with its own copy of this tree (<base>/k/verif) whose harness is pointed at that
worktree, pinned to its own share of the CPUs. Everything under <base> is removed at the end.

usage: regress_parallel.py [--lanes N] [--tier quick|thorough] [--only REGEX] [--benign] [--no-seeds] [--props C05,C13]
output (stdout), one line per (change, property):  <name> <property> CAUGHT|MISSED|ERROR <seconds>s
  seeds / mutants: the property of the change is checked; expected CAUGHT (M18a: MISSED, negative control)
  --benign: every benign patch is run through all twenty checks; expected MISSED (= no alarm) everywhere
"""
import glob, json, os, queue, re, shutil, subprocess, sys, threading, time

ROOT = os.path.dirname(os.path.dirname(os.path.abspath(__file__)))
args = sys.argv[1:]


def opt(name, default=None, flag=False):
    if name in args:
        i = args.index(name)
        if flag:
            del args[i]
            return True
        v = args[i + 1]
        del args[i:i + 2]
        return v
    return False if flag else default


lanes = int(opt("--lanes", "4"))
tier = opt("--tier", "quick")
only = opt("--only")
benign = opt("--benign", flag=True)
no_seeds = opt("--no-seeds", flag=True)
base = opt("--base", "/tmp/vlane")
props_only = opt("--props")  # comma-separated: restrict the benign runs to these checks
ALL = ["C%02d" % i for i in range(1, 21)]
if props_only:
    ALL = [p for p in ALL if p in props_only.split(",")]

items = []
if not no_seeds:
    for d in sorted(glob.glob(os.path.join(ROOT, "seeded", "*", ""))):
        name = os.path.basename(os.path.dirname(d))
        prop = json.load(open(os.path.join(d, "meta.json")))["property"]
        items.append((name, os.path.join(d, "patch.diff"), [prop]))
    for f in sorted(glob.glob(os.path.join(ROOT, "mutants", "*.diff"))):
        name = os.path.basename(f)[:-5]
        prop = re.sub(r"^M[0-9]+[a-z]?_(C[0-9]+)_.*", r"\1", name)
        items.append((name, f, [prop]))
if benign:
    for f in sorted(glob.glob(os.path.join(ROOT, "benign", "*.diff"))):
        items.append((os.path.basename(f)[:-5], f, ALL))
if only:
    items = [it for it in items if re.search(only, it[0])]

cpus = sorted(os.sched_getaffinity(0))
lanes = max(1, min(lanes, len(cpus), len(items) or 1))
share = [cpus[i::lanes] for i in range(lanes)]
work = queue.Queue()
for it in items:
    work.put(it)
out_lock = threading.Lock()


def sh(cmd, **kw):
    return subprocess.run(cmd, capture_output=True, text=True, **kw)


def setup(k):
    d = os.path.join(base, str(k))
    shutil.rmtree(d, ignore_errors=True)
    os.makedirs(d)
    repo = os.path.join(d, "repo")
    r = sh(["git", "-C", "/repo", "worktree", "add", "--detach", repo, "HEAD"])
    if r.returncode != 0:
        raise SystemExit("cannot create worktree: " + r.stderr)
    verif = os.path.join(d, "verif")
    sh(["rsync", "-a", "--exclude", ".target", "--exclude", ".git", "--exclude", "replays", "--exclude", "seeded",
        "--exclude", "mutants", "--exclude", "benign", ROOT + "/", verif + "/"])
    cfg = os.path.join(verif, "harness", ".cargo", "config.toml")
    s = open(cfg).read().replace(os.path.join(ROOT, ".target"), os.path.join(verif, ".target"))
    open(cfg, "w").write(s)
    ct = os.path.join(verif, "harness", "Cargo.toml")
    s = open(ct).read().replace('"/repo/', '"%s/' % repo)
    open(ct, "w").write(s)
    return repo, verif


def lane(k):
    repo, verif = setup(k)
    mine = set(share[k])

    def pin():
        os.sched_setaffinity(0, mine)
    while True:
        try:
            name, patch, props = work.get_nowait()
        except queue.Empty:
            break
        if sh(["git", "-C", repo, "apply", patch]).returncode != 0:
            with out_lock:
                for p in props:
                    print("%s %s ERROR 0s (patch does not apply)" % (name, p), flush=True)
            continue
        for p in props:
            t = time.time()
            r = subprocess.run([os.path.join(verif, "check"), p, "--tier", tier], capture_output=True, text=True,
                               cwd=verif, preexec_fn=pin)
            res = {0: "MISSED", 1: "CAUGHT"}.get(r.returncode, "ERROR")
            with out_lock:
                print("%s %s %s %ds" % (name, p, res, time.time() - t), flush=True)
                if res == "ERROR":
                    print("   " + r.stdout[-600:].replace("\n", "\n   "), flush=True)
        sh(["git", "-C", repo, "checkout", "--", "."])
        sh(["git", "-C", repo, "clean", "-fdq"])
    sh(["git", "-C", "/repo", "worktree", "remove", "--force", repo])


threads = [threading.Thread(target=lane, args=(k,)) for k in range(lanes)]
for t in threads:
    t.start()
for t in threads:
    t.join()
sh(["git", "-C", "/repo", "worktree", "prune"])
shutil.rmtree(base, ignore_errors=True)
