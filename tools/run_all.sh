#!/bin/bash
# run_all.sh <tier>: every check once, one line per property (used for timing and for refreshing evidence)
tier=${1:-quick}
for i in $(seq -w 1 20); do
  s=$(date +%s); out=$(./check C$i --tier $tier 2>&1); rc=$?; e=$(date +%s)
  echo "C$i rc=$rc $((e-s))s $(echo "$out" | grep -E "^C$i " | tail -1)"
  echo "$out" | grep -E "VIOLATION|MACHINERY|what:|note:" | head -5
done
