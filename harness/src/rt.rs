//! sched: controlled scheduler for real OS threads.
//!
//! Exactly one model thread runs at a time ("baton passing"). A model thread stops at every
//! operation reported through the `cadence::verif` shim (atomics, mutex, channel, spawn/join,
//! cell accesses) and at the harness's own points; the scheduler then picks which thread performs
//! its pending operation next, following a recorded list of choices. Everything else — panics,
//! unwinding, destructors, thread-locals — is the real thing.
use cadence::verif::{Done, Go, Op, OpKind, Ordering as MemOrd, Runtime, Wait};
use std::cell::RefCell;
use std::collections::HashMap;
use std::panic::{self, AssertUnwindSafe, Location};
use std::sync::atomic::{AtomicBool, Ordering};
use std::sync::{Arc, Condvar, Mutex, MutexGuard};
use std::time::Duration;

pub type Tid = usize;

/// Payload used to unwind parked threads when an execution is torn down.
pub struct Abort;
/// Payload of a panic the harness scripted (e.g. a wrapped sink told to panic).
pub struct ScriptedPanic(pub String);

#[derive(Clone, Copy, PartialEq, Eq, Debug)]
enum St {
    Ready,
    Running,
    Finished,
}

enum PWait {
    Shim(Wait),
    /// enabled only when no other thread is enabled
    Quiescent,
}

struct Pending {
    kind: OpKind,
    obj: usize,
    wait: PWait,
    label: &'static str,
}

/// An entry of the per-execution event log: channel operations reported by the shim and marks
/// placed by the harness, in the order in which they happened.
#[derive(Clone, Debug)]
pub struct Ev {
    pub tid: Tid,
    /// Some(kind) for a shim operation, None for a harness mark
    pub kind: Option<OpKind>,
    /// object ordinal (shim operation) or mark code
    pub a: usize,
    /// success flag (shim operation) or mark argument
    pub b: usize,
}

struct Th {
    /// how often the thread parked on an operation that was not enabled at that moment
    blocked: usize,
    st: St,
    pending: Option<Pending>,
    cv: Arc<Condvar>,
    name: String,
    /// how the thread body ended: None = returned, Some(kind) = unwound
    ended_by: Option<String>,
}

#[derive(Clone, Debug)]
pub struct PointRec {
    pub n: usize,
    pub chosen: usize,
    /// is choosing alternative i a preemption?
    pub preempt: Vec<bool>,
    /// signature of the enabled set (or of the data choice)
    pub sig: u64,
    pub data: bool,
}

#[derive(Clone, Debug)]
pub struct Race {
    pub what: String,
}

#[derive(Default)]
struct Hb {
    clocks: Vec<Vec<u32>>,
    rel: HashMap<usize, Vec<u32>>,
    cells: HashMap<usize, CellHist>,
}

#[derive(Default, Clone)]
struct CellHist {
    write: Option<(Tid, u32, String)>,
    reads: Vec<(Tid, u32, String)>,
}

struct State {
    th: Vec<Th>,
    /// OS-level jobs of this execution that have not returned yet
    live_os: usize,
    current: Option<Tid>,
    done: bool,
    deadlock: bool,
    horizon: bool,
    aborting: bool,
    prefix: Vec<usize>,
    prefix_sigs: Vec<u64>,
    diverged: Option<String>,
    points: Vec<PointRec>,
    steps: usize,
    max_steps: usize,
    /// delay bounding: every departure from the default (canonical) choice costs one unit, also at
    /// points where the running thread has finished or blocked
    delay: bool,
    /// are reference-count operations of the shim's `Arc` scheduling points in this execution?
    arc_points: bool,
    /// is there a scheduling point right after every operation that can enable another thread?
    post_points: bool,
    trace_hash: u64,
    trace: Vec<String>,
    keep_trace: bool,
    ordinals: HashMap<usize, usize>,
    hb: Hb,
    races: Vec<Race>,
    panics: Vec<(Tid, String)>,
    events: Vec<Ev>,
}

pub struct Exec {
    st: Mutex<State>,
    ctl: Condvar,
}

thread_local! {
    static CUR: RefCell<Option<(Arc<Exec>, Tid)>> = const { RefCell::new(None) };
}

fn cur() -> Option<(Arc<Exec>, Tid)> {
    CUR.with(|c| c.borrow().clone())
}

/// Model thread id of the calling thread.
pub fn me() -> Option<Tid> {
    CUR.with(|c| c.borrow().as_ref().map(|x| x.1))
}

fn lock(ex: &Exec) -> MutexGuard<'_, State> {
    ex.st.lock().unwrap_or_else(|e| e.into_inner())
}

fn mix(h: u64, v: u64) -> u64 {
    (h ^ v).wrapping_mul(0x100000001b3).rotate_left(17)
}

impl State {
    fn ordinal(&mut self, obj: usize) -> usize {
        let n = self.ordinals.len();
        *self.ordinals.entry(obj).or_insert(n)
    }

    fn enabled_plain(&self, t: &Th, tid: Tid) -> bool {
        if t.st != St::Ready {
            return false;
        }
        let Some(p) = &t.pending else { return false };
        match &p.wait {
            PWait::Quiescent => false,
            PWait::Shim(Wait::No) => true,
            PWait::Shim(Wait::Until(f)) => f(),
            PWait::Shim(Wait::Thread(o)) => self.th.get(*o).map(|x| x.st == St::Finished).unwrap_or(true),
            PWait::Shim(Wait::ReceiverParked { taken, or }) => {
                let parked = self
                    .th
                    .iter()
                    .enumerate()
                    .filter(|(i, x)| {
                        *i != tid
                            && x.st == St::Ready
                            && x.pending.as_ref().map(|q| q.kind == OpKind::ChanRecv && q.obj == p.obj).unwrap_or(false)
                    })
                    .count();
                parked > taken() || or()
            }
        }
    }

    fn enabled_set(&self, me: Option<Tid>) -> (Vec<Tid>, bool) {
        let mut en: Vec<Tid> = vec![];
        let me_en = me.map(|m| self.enabled_plain(&self.th[m], m)).unwrap_or(false);
        if me_en {
            en.push(me.unwrap());
        }
        for (i, t) in self.th.iter().enumerate() {
            if Some(i) != me && self.enabled_plain(t, i) {
                en.push(i);
            }
        }
        if en.is_empty() {
            // quiescent waiters run only when nothing else can
            let mut q_me = false;
            if let Some(m) = me {
                if self.is_quiescent_waiter(m) {
                    en.push(m);
                    q_me = true;
                }
            }
            for i in 0..self.th.len() {
                if Some(i) != me && self.is_quiescent_waiter(i) {
                    en.push(i);
                }
            }
            return (en, q_me);
        }
        (en, me_en)
    }

    fn is_quiescent_waiter(&self, t: Tid) -> bool {
        let th = &self.th[t];
        th.st == St::Ready && matches!(th.pending.as_ref().map(|p| &p.wait), Some(PWait::Quiescent))
    }

    fn decide(&mut self, n: usize, preempt: Vec<bool>, sig: u64, data: bool) -> usize {
        let idx = self.points.len();
        let chosen = if idx < self.prefix.len() {
            if let Some(exp) = self.prefix_sigs.get(idx) {
                if *exp != sig && self.diverged.is_none() {
                    self.diverged = Some(format!("choice point {} has signature {:x}, expected {:x}", idx, sig, exp));
                }
            }
            let c = self.prefix[idx];
            if c >= n {
                if self.diverged.is_none() {
                    self.diverged = Some(format!("choice {} out of range {} at point {}", c, n, idx));
                }
                0
            } else {
                c
            }
        } else {
            0
        };
        self.points.push(PointRec {
            n,
            chosen,
            preempt,
            sig,
            data,
        });
        chosen
    }
}

impl Exec {
    /// Pick the next thread. Caller holds the lock; `me` is the thread that was running.
    fn schedule(&self, st: &mut State, me: Option<Tid>) {
        st.steps += 1;
        if st.steps > st.max_steps {
            st.horizon = true;
            st.current = None;
            st.done = true;
            self.ctl.notify_all();
            return;
        }
        let (enabled, me_en) = st.enabled_set(me);
        if enabled.is_empty() {
            st.current = None;
            st.done = true;
            st.deadlock = st.th.iter().any(|t| t.st != St::Finished);
            self.ctl.notify_all();
            return;
        }
        let next = if enabled.len() == 1 {
            enabled[0]
        } else {
            let delay = st.delay;
            let preempt: Vec<bool> = (0..enabled.len()).map(|i| (me_en || delay) && i > 0).collect();
            let mut sig = 0xcbf29ce484222325u64;
            for &t in &enabled {
                let (k, o) = {
                    let p = st.th[t].pending.as_ref().unwrap();
                    (p.kind as u64, p.obj)
                };
                let ord = st.ordinal(o) as u64;
                sig = mix(mix(mix(sig, t as u64), k), ord);
            }
            let c = st.decide(enabled.len(), preempt, sig, false);
            enabled[c]
        };
        st.current = Some(next);
        st.th[next].cv.notify_one();
    }
}

/// Outcome of parking at a point.
fn park(ex: &Arc<Exec>, me: Tid, pending: Pending) -> Go {
    let mut st = lock(ex);
    if st.aborting {
        drop(st);
        return abort_or_inert();
    }
    let kind = pending.kind;
    let obj = pending.obj;
    let label = pending.label;
    st.th[me].pending = Some(pending);
    st.th[me].st = St::Ready;
    if !matches!(st.th[me].pending.as_ref().unwrap().wait, PWait::Quiescent) && !st.enabled_plain(&st.th[me], me) {
        st.th[me].blocked += 1;
    }
    ex.schedule(&mut st, Some(me));
    let cv = st.th[me].cv.clone();
    while st.current != Some(me) && !st.aborting {
        st = cv.wait(st).unwrap_or_else(|e| e.into_inner());
    }
    if st.aborting {
        drop(st);
        return abort_or_inert();
    }
    st.th[me].st = St::Running;
    st.th[me].pending = None;
    let ord = st.ordinal(obj) as u64;
    st.trace_hash = mix(mix(mix(st.trace_hash, me as u64), kind as u64), ord);
    if st.keep_trace {
        let name = st.th[me].name.clone();
        st.trace.push(format!("t{}({}) {:?}{}#{}", me, name, kind, if label.is_empty() { String::new() } else { format!("[{}]", label) }, ord));
    }
    Go::Proceed
}

fn abort_or_inert() -> Go {
    if std::thread::panicking() {
        Go::Aborting
    } else {
        panic::resume_unwind(Box::new(Abort))
    }
}

pub struct Sched;
pub static SCHED: Sched = Sched;

impl Runtime for Sched {
    fn point(&self, op: Op) -> Go {
        let Some((ex, me)) = cur() else { return Go::Free };
        if matches!(op.kind, OpKind::ArcClone | OpKind::ArcDrop | OpKind::ArcCount) {
            // reference counts are scheduling points only in executions that ask for it; elsewhere
            // the operation is performed at once (and still recorded for happens-before)
            let st = lock(&ex);
            if st.aborting {
                return Go::Free;
            }
            if !st.arc_points {
                return Go::Proceed;
            }
        }
        park(
            &ex,
            me,
            Pending {
                kind: op.kind,
                obj: op.obj,
                wait: PWait::Shim(op.wait),
                label: "",
            },
        )
    }

    fn done(&self, d: Done) {
        let Some((ex, me)) = cur() else { return };
        let mut st = lock(&ex);
        if st.aborting {
            return;
        }
        if matches!(d.kind, OpKind::ChanTrySend | OpKind::ChanSend | OpKind::ChanRecv | OpKind::ChanTryRecv) {
            let ord = st.ordinal(d.obj);
            st.events.push(Ev {
                tid: me,
                kind: Some(d.kind),
                a: ord,
                b: d.success as usize,
            });
        }
        hb_done(&mut st, me, &d);
    }

    fn after(&self, kind: OpKind) {
        // only in executions that ask for it: a point after the operations by which a thread can
        // enable or inform another one, so that what follows (a socket write, say) is a step of its own
        if !matches!(kind, OpKind::MutexUnlock | OpKind::ChanSend | OpKind::ChanTrySend | OpKind::AtomicStore | OpKind::AtomicRmw | OpKind::AtomicCas) {
            return;
        }
        let Some((ex, me)) = cur() else { return };
        {
            let st = lock(&ex);
            if st.aborting || !st.post_points {
                return;
            }
        }
        if std::thread::panicking() {
            return;
        }
        park(
            &ex,
            me,
            Pending {
                kind: OpKind::ThreadYield,
                obj: 4,
                wait: PWait::Shim(Wait::No),
                label: "after",
            },
        );
    }

    fn parked_receivers(&self, obj: usize) -> usize {
        let Some((ex, me)) = cur() else { return 0 };
        let st = lock(&ex);
        st.th
            .iter()
            .enumerate()
            .filter(|(i, x)| {
                *i != me
                    && x.st == St::Ready
                    && x.pending.as_ref().map(|q| q.kind == OpKind::ChanRecv && q.obj == obj).unwrap_or(false)
            })
            .count()
    }

    fn controls_current_thread(&self) -> bool {
        cur().is_some()
    }

    fn spurious_failure(&self) -> bool {
        // a data choice: the default answer is "no"; the explorer enumerates "yes" within its
        // budget of deviations
        choose(2) == 1
    }

    fn spawn(&self, name: Option<String>, body: Box<dyn FnOnce() + Send + 'static>) -> usize {
        spawn_model(name.unwrap_or_default(), body)
    }
}

fn spawn_model(name: String, body: Box<dyn FnOnce() + Send + 'static>) -> Tid {
    let Some((ex, me)) = cur() else { panic!("spawn_model outside a model thread") };
    let mut st = lock(&ex);
    if st.aborting {
        // torn down: never run the body
        return usize::MAX;
    }
    let tid = st.th.len();
    // happens-before: the child starts with the parent's clock
    let mut c = st.hb.clocks[me].clone();
    if c.len() <= tid {
        c.resize(tid + 1, 0);
    }
    c[tid] = 1;
    st.hb.clocks.push(c);
    tick(&mut st.hb, me);
    st.th.push(Th {
        blocked: 0,
        st: St::Ready,
        pending: Some(Pending {
            kind: OpKind::ThreadSpawn,
            obj: 0,
            wait: PWait::Shim(Wait::No),
            label: "start",
        }),
        cv: Arc::new(Condvar::new()),
        name,
        ended_by: None,
    });
    st.live_os += 1;
    let ex2 = ex.clone();
    pool_run(tid, Box::new(move || os_job(ex2, tid, body)));
    tid
}

// ---------------------------------------------------------------------------------------------
// OS threads are pooled: creating a thread per model thread per execution dominated the cost

type Job = Box<dyn FnOnce() + Send + 'static>;

/// Model thread `k` of every execution runs on pooled OS thread `k`: thread-local state of the code
/// under test then behaves as on long-lived threads and, more importantly, identically from one
/// execution to the next (the explorer depends on executions being reproducible).
static POOL: Mutex<Vec<std::sync::mpsc::Sender<Job>>> = Mutex::new(Vec::new());

fn pool_run(tid: Tid, job: Job) {
    let mut pool = POOL.lock().unwrap_or_else(|e| e.into_inner());
    while pool.len() <= tid {
        let (tx, rx) = std::sync::mpsc::channel::<Job>();
        std::thread::Builder::new()
            .stack_size(1024 * 1024)
            .spawn(move || {
                while let Ok(job) = rx.recv() {
                    let _ = panic::catch_unwind(AssertUnwindSafe(job));
                }
            })
            .expect("cannot spawn OS thread");
        pool.push(tx);
    }
    pool[tid].send(job).expect("pooled thread is gone");
}

fn os_job(ex: Arc<Exec>, tid: Tid, body: Box<dyn FnOnce() + Send + 'static>) {
    struct Guard(Arc<Exec>);
    impl Drop for Guard {
        fn drop(&mut self) {
            CUR.with(|c| *c.borrow_mut() = None);
            let mut st = lock(&self.0);
            st.live_os -= 1;
            self.0.ctl.notify_all();
        }
    }
    let _g = Guard(ex.clone());
    thread_main(ex, tid, body);
}

fn thread_main(ex: Arc<Exec>, tid: Tid, f: Box<dyn FnOnce() + Send + 'static>) {
    CUR.with(|c| *c.borrow_mut() = Some((ex.clone(), tid)));
    {
        let mut st = lock(&ex);
        let cv = st.th[tid].cv.clone();
        while st.current != Some(tid) && !st.aborting {
            st = cv.wait(st).unwrap_or_else(|e| e.into_inner());
        }
        if st.aborting {
            st.th[tid].st = St::Finished;
            drop(st);
            CUR.with(|c| *c.borrow_mut() = None);
            drop(f);
            return;
        }
        st.th[tid].st = St::Running;
        st.th[tid].pending = None;
    }
    let r = panic::catch_unwind(AssertUnwindSafe(f));
    let mut st = lock(&ex);
    if let Err(p) = r {
        let kind = if p.is::<Abort>() {
            "abort".to_string()
        } else if p.is::<ScriptedPanic>() {
            "scripted-panic".to_string()
        } else if p.is::<cadence::verif::thread::ThreadPanicked>() {
            "panicked".to_string()
        } else {
            format!("panic: {}", crate::common::payload_str(&*p))
        };
        st.th[tid].ended_by = Some(kind);
    }
    st.th[tid].st = St::Finished;
    if !st.aborting {
        ex.schedule(&mut st, Some(tid));
    }
    drop(st);
    CUR.with(|c| *c.borrow_mut() = None);
}

// ---------------------------------------------------------------------------------------------
// happens-before bookkeeping (vector clocks)

fn join_into(a: &mut Vec<u32>, b: &[u32]) {
    if a.len() < b.len() {
        a.resize(b.len(), 0);
    }
    for (i, v) in b.iter().enumerate() {
        if a[i] < *v {
            a[i] = *v;
        }
    }
}

fn tick(hb: &mut Hb, t: Tid) {
    if hb.clocks[t].len() <= t {
        hb.clocks[t].resize(t + 1, 0);
    }
    hb.clocks[t][t] += 1;
}

fn leq(e: (Tid, u32), c: &[u32]) -> bool {
    c.get(e.0).copied().unwrap_or(0) >= e.1
}

fn is_acq(o: Option<MemOrd>) -> bool {
    matches!(o, Some(MemOrd::Acquire) | Some(MemOrd::AcqRel) | Some(MemOrd::SeqCst))
}

fn is_rel(o: Option<MemOrd>) -> bool {
    matches!(o, Some(MemOrd::Release) | Some(MemOrd::AcqRel) | Some(MemOrd::SeqCst))
}

fn loc_str(l: &Location<'_>) -> String {
    let f = l.file();
    let short = f.rsplit('/').next().unwrap_or(f);
    format!("{}:{}", short, l.line())
}

fn hb_done(st: &mut State, me: Tid, d: &Done) {
    let hb = &mut st.hb;
    match d.kind {
        OpKind::AtomicLoad | OpKind::ArcCount => {
            if is_acq(d.order) {
                if let Some(r) = hb.rel.get(&d.obj).cloned() {
                    join_into(&mut hb.clocks[me], &r);
                }
            }
        }
        OpKind::AtomicStore => {
            // a release store starts a release sequence; a relaxed store ends the previous one
            let c = if is_rel(d.order) { hb.clocks[me].clone() } else { vec![] };
            hb.rel.insert(d.obj, c);
            tick(hb, me);
        }
        OpKind::AtomicRmw | OpKind::AtomicCas | OpKind::ArcClone | OpKind::ArcDrop => {
            if is_acq(d.order) {
                if let Some(r) = hb.rel.get(&d.obj).cloned() {
                    join_into(&mut hb.clocks[me], &r);
                }
            }
            if is_rel(d.order) {
                let c = hb.clocks[me].clone();
                join_into(hb.rel.entry(d.obj).or_default(), &c);
            }
            // a relaxed RMW continues the release sequence: leave `rel` alone
            tick(hb, me);
        }
        OpKind::MutexLock | OpKind::MutexTryLock => {
            if d.success {
                if let Some(r) = hb.rel.get(&d.obj).cloned() {
                    join_into(&mut hb.clocks[me], &r);
                }
            }
        }
        OpKind::MutexUnlock => {
            let c = hb.clocks[me].clone();
            hb.rel.insert(d.obj, c);
            tick(hb, me);
        }
        OpKind::ChanSend | OpKind::ChanTrySend => {
            if d.success {
                let c = hb.clocks[me].clone();
                join_into(hb.rel.entry(d.obj).or_default(), &c);
                tick(hb, me);
            }
        }
        OpKind::ChanRecv | OpKind::ChanTryRecv => {
            if d.success {
                if let Some(r) = hb.rel.get(&d.obj).cloned() {
                    join_into(&mut hb.clocks[me], &r);
                }
            }
        }
        OpKind::ThreadJoin => {
            if let Some(c) = hb.clocks.get(d.obj).cloned() {
                join_into(&mut hb.clocks[me], &c);
            }
        }
        OpKind::ThreadSpawn | OpKind::ThreadYield | OpKind::ChanLen => {}
        OpKind::CellRead | OpKind::CellWrite => {
            let write = d.kind == OpKind::CellWrite;
            let c = hb.clocks[me].clone();
            let epoch = (me, c.get(me).copied().unwrap_or(0), loc_str(d.loc));
            let ent = hb.cells.entry(d.obj).or_default().clone();
            let mut found: Vec<String> = vec![];
            if let Some(w) = &ent.write {
                if !leq((w.0, w.1), &c) {
                    found.push(format!(
                        "{} of the cell by thread {} at {} is not ordered after the write by thread {} at {}",
                        if write { "write" } else { "read" },
                        me,
                        epoch.2,
                        w.0,
                        w.2
                    ));
                }
            }
            if write {
                for r in &ent.reads {
                    if !leq((r.0, r.1), &c) {
                        found.push(format!(
                            "write of the cell by thread {} at {} is not ordered after the read by thread {} at {}",
                            me, epoch.2, r.0, r.2
                        ));
                    }
                }
            }
            let e = hb.cells.get_mut(&d.obj).unwrap();
            if write {
                e.write = Some(epoch);
                e.reads.clear();
            } else {
                e.reads.push(epoch);
            }
            tick(hb, me);
            for f in found {
                st.races.push(Race { what: f });
            }
        }
    }
}

// ---------------------------------------------------------------------------------------------
// harness-side API (callable from model threads)

/// Spawn a model thread running `f`.
pub fn spawn<F: FnOnce() + Send + 'static>(name: &str, f: F) -> Tid {
    // a spawn is itself a visible operation
    if let Some((ex, me)) = cur() {
        park(
            &ex,
            me,
            Pending {
                kind: OpKind::ThreadSpawn,
                obj: 0,
                wait: PWait::Shim(Wait::No),
                label: "spawn",
            },
        );
    }
    spawn_model(name.to_string(), Box::new(f))
}

/// Wait for model thread `t` to finish.
pub fn join(t: Tid) {
    let Some((ex, me)) = cur() else { return };
    let go = park(
        &ex,
        me,
        Pending {
            kind: OpKind::ThreadJoin,
            obj: t,
            wait: PWait::Shim(Wait::Thread(t)),
            label: "join",
        },
    );
    if go == Go::Proceed {
        let mut st = lock(&ex);
        if let Some(c) = st.hb.clocks.get(t).cloned() {
            join_into(&mut st.hb.clocks[me], &c);
        }
    }
}

/// Block until `cond` holds. `cond` is evaluated by the scheduler and must not call into it.
pub fn wait_until(label: &'static str, cond: impl Fn() -> bool + Send + 'static) {
    let Some((ex, me)) = cur() else { return };
    park(
        &ex,
        me,
        Pending {
            kind: OpKind::ThreadYield,
            obj: 1,
            wait: PWait::Shim(Wait::Until(Box::new(cond))),
            label,
        },
    );
}

/// Block until every other thread is finished or blocked (a quiescent moment).
pub fn wait_quiescent() {
    let Some((ex, me)) = cur() else { return };
    park(
        &ex,
        me,
        Pending {
            kind: OpKind::ThreadYield,
            obj: 2,
            wait: PWait::Quiescent,
            label: "quiescent",
        },
    );
}

/// A plain scheduling point (lets the scheduler preempt here).
pub fn yield_point(label: &'static str) {
    let Some((ex, me)) = cur() else { return };
    park(
        &ex,
        me,
        Pending {
            kind: OpKind::ThreadYield,
            obj: 3,
            wait: PWait::Shim(Wait::No),
            label,
        },
    );
}

/// Data nondeterminism: an environment answer in 0..n, enumerated by the explorer and budgeted
/// separately from preemptions. Choice 0 is the default answer.
pub fn choose(n: usize) -> usize {
    let Some((ex, _)) = cur() else { return 0 };
    let mut st = lock(&ex);
    if st.aborting || n <= 1 {
        return 0;
    }
    st.decide(n, vec![false; n], 0xdada ^ n as u64, true)
}

/// Append a harness mark to the execution's event log (not a scheduling point).
pub fn mark(code: usize, arg: usize) {
    if let Some((ex, me)) = cur() {
        let mut st = lock(&ex);
        if !st.aborting {
            st.events.push(Ev {
                tid: me,
                kind: None,
                a: code,
                b: arg,
            });
        }
    }
}

/// How often the calling thread has had to wait for an operation that was not enabled.
pub fn my_blocked_count() -> usize {
    match cur() {
        Some((ex, me)) => lock(&ex).th[me].blocked,
        None => 0,
    }
}

/// A condition the scheduler can see: threads waiting on a closed gate are disabled.
#[derive(Clone, Default)]
pub struct Gate(Arc<AtomicBool>);

impl Gate {
    pub fn new(open: bool) -> Gate {
        Gate(Arc::new(AtomicBool::new(open)))
    }
    pub fn open(&self) {
        self.0.store(true, Ordering::SeqCst);
    }
    pub fn is_open(&self) -> bool {
        self.0.load(Ordering::SeqCst)
    }
    /// Block until the gate is open.
    pub fn pass(&self, label: &'static str) {
        let g = self.0.clone();
        wait_until(label, move || g.load(Ordering::SeqCst));
    }
}

// ---------------------------------------------------------------------------------------------
// running one execution

pub struct ThreadEnd {
    pub name: String,
    pub finished: bool,
    /// what the thread is blocked on, if it is not finished
    pub blocked_on: Option<String>,
    pub ended_by: Option<String>,
}

pub struct EndState {
    pub deadlock: bool,
    pub horizon: bool,
    pub threads: Vec<ThreadEnd>,
    pub races: Vec<Race>,
    /// panics that were neither scripted nor teardown, with the thread they occurred on
    pub panics: Vec<(Tid, String)>,
    pub events: Vec<Ev>,
}

impl EndState {
    pub fn unfinished(&self) -> Vec<String> {
        self.threads
            .iter()
            .enumerate()
            .filter(|(_, t)| !t.finished)
            .map(|(i, t)| format!("t{}({}) blocked on {}", i, t.name, t.blocked_on.clone().unwrap_or_default()))
            .collect()
    }
}

pub struct Outcome<V> {
    pub points: Vec<PointRec>,
    pub steps: usize,
    pub trace_hash: u64,
    pub trace: Vec<String>,
    pub diverged: Option<String>,
    pub watchdog: bool,
    pub verdict: Option<V>,
}

pub struct RunCfg {
    pub prefix: Vec<usize>,
    pub prefix_sigs: Vec<u64>,
    pub max_steps: usize,
    pub keep_trace: bool,
    pub delay: bool,
    pub arc_points: bool,
    pub post_points: bool,
}

/// Record a panic message for the current execution (called by the panic hook).
pub fn note_panic(msg: String) {
    if let Some((ex, me)) = cur() {
        let mut st = lock(&ex);
        if !st.aborting {
            st.panics.push((me, msg));
        }
    }
}

pub fn install() {
    cadence::verif::install(&SCHED);
    panic::set_hook(Box::new(|info| {
        let p = info.payload();
        if p.is::<Abort>() || p.is::<ScriptedPanic>() || p.is::<cadence::verif::thread::ThreadPanicked>() {
            return;
        }
        let loc = info.location().map(|l| format!("{}:{}", l.file(), l.line())).unwrap_or_default();
        let msg = format!("{} at {}", crate::common::payload_str(p), loc);
        if me().is_some() {
            note_panic(msg);
        }
    }));
}

/// Run `body` as model thread 0 following `cfg.prefix`, default choice 0 afterwards. `judge` is
/// called once the execution has ended (all threads finished, or no thread enabled, or the step
/// horizon) and *before* the blocked threads are torn down.
pub fn run_one<V>(cfg: RunCfg, body: Box<dyn FnOnce() + Send + 'static>, judge: impl FnOnce(&EndState) -> V) -> Outcome<V> {
    let ex = Arc::new(Exec {
        st: Mutex::new(State {
            th: vec![],
            live_os: 0,
            current: None,
            done: false,
            deadlock: false,
            horizon: false,
            aborting: false,
            prefix: cfg.prefix,
            prefix_sigs: cfg.prefix_sigs,
            diverged: None,
            points: vec![],
            steps: 0,
            max_steps: cfg.max_steps,
            delay: cfg.delay,
            arc_points: cfg.arc_points,
            post_points: cfg.post_points,
            trace_hash: 0xcbf29ce484222325,
            trace: vec![],
            keep_trace: cfg.keep_trace,
            ordinals: HashMap::new(),
            hb: Hb {
                clocks: vec![vec![1]],
                ..Default::default()
            },
            races: vec![],
            panics: vec![],
            events: vec![],
        }),
        ctl: Condvar::new(),
    });
    {
        let mut st = lock(&ex);
        st.th.push(Th {
            blocked: 0,
            st: St::Ready,
            pending: Some(Pending {
                kind: OpKind::ThreadSpawn,
                obj: 0,
                wait: PWait::Shim(Wait::No),
                label: "start",
            }),
            cv: Arc::new(Condvar::new()),
            name: "main".into(),
            ended_by: None,
        });
        st.live_os += 1;
        let ex2 = ex.clone();
        pool_run(0, Box::new(move || os_job(ex2, 0, body)));
        st.current = Some(0);
        st.th[0].cv.notify_one();
    }
    let mut watchdog = false;
    let mut st = lock(&ex);
    let mut waited = 0;
    while !st.done {
        let (g, to) = ex.ctl.wait_timeout(st, Duration::from_secs(5)).unwrap_or_else(|e| e.into_inner());
        st = g;
        if to.timed_out() && !st.done {
            waited += 1;
            if waited >= 24 {
                watchdog = true;
                break;
            }
        }
    }
    let end = EndState {
        deadlock: st.deadlock,
        horizon: st.horizon,
        threads: st
            .th
            .iter()
            .map(|t| ThreadEnd {
                name: t.name.clone(),
                finished: t.st == St::Finished,
                blocked_on: t.pending.as_ref().map(|p| format!("{:?}{}", p.kind, if p.label.is_empty() { String::new() } else { format!("[{}]", p.label) })),
                ended_by: t.ended_by.clone(),
            })
            .collect(),
        races: st.races.clone(),
        panics: st.panics.clone(),
        events: st.events.clone(),
    };
    drop(st);
    // snapshot first: teardown unwinds blocked threads and runs their destructors
    let verdict = if watchdog { None } else { Some(judge(&end)) };
    let mut st = lock(&ex);
    st.aborting = true;
    for t in st.th.iter() {
        t.cv.notify_all();
    }
    // wait until every OS-level job of this execution has returned to the pool
    let mut spins = 0;
    while st.live_os > 0 && !watchdog {
        let (g, to) = ex.ctl.wait_timeout(st, Duration::from_secs(5)).unwrap_or_else(|e| e.into_inner());
        st = g;
        if to.timed_out() {
            spins += 1;
            if spins > 24 {
                break;
            }
        }
    }
    Outcome {
        points: std::mem::take(&mut st.points),
        steps: st.steps,
        trace_hash: st.trace_hash,
        trace: std::mem::take(&mut st.trace),
        diverged: st.diverged.take(),
        watchdog,
        verdict,
    }
}
