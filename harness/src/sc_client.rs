//! sched/client: two threads sharing one `StatsdClient` whose sink refuses metrics; the error
//! handler contains a scheduling point, so quiet sends of different threads overlap in every
//! possible way (C03 under concurrency: each failure reaches the handler exactly once).
use crate::api::{failure_of, Failure};
use crate::common::{hash_of, Report};
use crate::explore::{self, Bounds, Scenario, Verdict};
use crate::rt::{self, EndState};
use crate::wmodel::Breach;
use crate::writer::Injected;
use cadence::prelude::*;
use cadence::{MetricSink, StatsdClient};
use std::io;
use std::sync::atomic::{AtomicUsize, Ordering};
use std::sync::{Arc, Mutex};
use std::time::Duration;

#[derive(Clone)]
pub struct ClientScn {
    /// per thread: 'r' quiet send refused by the sink, 'i' quiet send of an invalid value,
    /// 'o' quiet send that succeeds, 't' try_send refused
    pub prog: Vec<String>,
    pub text: String,
}

pub fn scenario(spec: &crate::Spec) -> ClientScn {
    ClientScn {
        prog: spec.str("prog", "r.r").split('.').map(|s| s.to_string()).collect(),
        text: spec.raw.clone(),
    }
}

struct Refusing {
    next: AtomicUsize,
    emits: Mutex<Vec<String>>,
}

impl MetricSink for Refusing {
    fn emit(&self, m: &str) -> io::Result<usize> {
        self.emits.lock().unwrap().push(m.to_string());
        rt::yield_point("sink");
        if m.starts_with("ok") {
            return Ok(m.len());
        }
        let id = self.next.fetch_add(1, Ordering::SeqCst) + 1;
        Err(io::Error::new(io::ErrorKind::BrokenPipe, Injected(id)))
    }
}

impl Scenario for ClientScn {
    fn name(&self) -> String {
        self.text.clone()
    }

    fn make(&self) -> (Box<dyn FnOnce() + Send + 'static>, Box<dyn FnOnce(&EndState) -> Verdict + Send + 'static>) {
        let handled: Arc<Mutex<Vec<(usize, Failure)>>> = Arc::new(Mutex::new(vec![]));
        let returned: Arc<Mutex<Vec<(usize, Option<Failure>)>>> = Arc::new(Mutex::new(vec![]));
        let scn = self.clone();
        let (h2, r2) = (handled.clone(), returned.clone());
        let body = Box::new(move || {
            let sink = Refusing {
                next: AtomicUsize::new(0),
                emits: Mutex::new(vec![]),
            };
            let h3 = h2.clone();
            let client = Arc::new(
                StatsdClient::builder("", sink)
                    .with_error_handler(move |e| {
                        let f = failure_of(&e);
                        // a slow handler: other threads may run while this one is inside it
                        rt::yield_point("handler");
                        h3.lock().unwrap().push((rt::me().unwrap_or(0), f));
                        rt::yield_point("handler-end");
                    })
                    .build(),
            );
            let mut tids = vec![];
            for (ti, ops) in scn.prog.iter().enumerate() {
                let (client, ops, r3) = (client.clone(), ops.clone(), r2.clone());
                tids.push(rt::spawn("caller", move || {
                    for (k, op) in ops.bytes().enumerate() {
                        let key = format!("k{}_{}", ti, k);
                        match op {
                            b'r' => client.count_with_tags(&key, 1).send(),
                            b'o' => client.count_with_tags(&format!("ok{}_{}", ti, k), 1).send(),
                            b'i' => client.time_with_tags(&key, Duration::MAX).send(),
                            b't' => {
                                let r = client.count_with_tags(&key, 1).try_send();
                                r3.lock().unwrap().push((ti, r.err().map(|e| failure_of(&e))));
                            }
                            _ => {}
                        }
                    }
                }));
            }
            for t in tids {
                rt::join(t);
            }
        });
        let scn = self.clone();
        let judge = Box::new(move |end: &EndState| {
            let mut out: Vec<Breach> = vec![];
            for (t, p) in &end.panics {
                out.push(Breach {
                    props: vec!["C03", "C20"],
                    sig: "panic".into(),
                    what: format!("thread {} panicked: {}", t, p),
                });
            }
            if end.deadlock || end.horizon {
                out.push(Breach {
                    props: vec!["C03"],
                    sig: "stuck".into(),
                    what: format!("the program did not finish: {:?}", end.unfinished()),
                });
            }
            let handled = handled.lock().unwrap().clone();
            let want_io = scn.prog.iter().map(|p| p.matches('r').count()).sum::<usize>();
            let want_invalid = scn.prog.iter().map(|p| p.matches('i').count()).sum::<usize>();
            let got_io = handled.iter().filter(|h| h.1.kind == cadence::ErrorKind::IoError).count();
            let got_invalid = handled.iter().filter(|h| h.1.kind == cadence::ErrorKind::InvalidInput).count();
            if !end.deadlock && (got_io != want_io || got_invalid != want_invalid) {
                out.push(Breach {
                    props: vec!["C03"],
                    sig: "concurrent-handler-count".into(),
                    what: format!("{} quiet sends were refused by the sink and {} had an invalid value, but the handler saw {} I/O errors and {} invalid-input errors", want_io, want_invalid, got_io, got_invalid),
                });
            }
            let mut ids: Vec<usize> = handled.iter().filter_map(|h| h.1.injected).collect();
            ids.sort();
            let before = ids.len();
            ids.dedup();
            if ids.len() != before {
                out.push(Breach {
                    props: vec!["C03"],
                    sig: "handler-saw-error-twice".into(),
                    what: "the same sink error reached the handler twice".into(),
                });
            }
            for (t, f) in returned.lock().unwrap().iter() {
                match f {
                    Some(f) if f.kind == cadence::ErrorKind::IoError && f.injected.is_some() => {}
                    other => out.push(Breach {
                        props: vec!["C03"],
                        sig: "try-send-result".into(),
                        what: format!("try_send on thread {} while the sink refuses returned {:?}", t, other),
                    }),
                }
            }
            Verdict {
                breaches: out,
                outcome: hash_of(&(got_io, got_invalid)),
                flags: vec!["handlers-overlapped"],
                summary: format!("handler saw {:?}", handled.iter().map(|h| (h.0, h.1.kind)).collect::<Vec<_>>()),
            }
        });
        (body, judge)
    }
}

pub fn run(spec: &crate::Spec) -> Report {
    let mut rep = Report::new(&spec.raw);
    let scn = scenario(spec);
    let b = Bounds {
        preemptions: spec.opt_usize("D").or(spec.opt_usize("P")).unwrap_or(usize::MAX),
        deviations: 0,
        max_execs: spec.usize("max", 1_000_000) as u64,
        delay: spec.opt_usize("D").is_some(),
    };
    explore::check(&mut rep, &scn, b, &spec.raw);
    rep.extra("preemption_bound_completed", if b.preemptions == usize::MAX { 99 } else { b.preemptions });
    rep
}
