//! Which engine instances decide which property, per tier.

fn ends() -> [&'static str; 3] {
    ["n", "rn", "e"]
}

fn writer(tier: &str) -> Vec<String> {
    let mut v = vec![];
    let thorough = tier == "thorough";
    // fixpoint BFS: failure-free (C05/C06/C19) and with failures (C07)
    let caps: Vec<usize> = if thorough { (0..=14).collect() } else { (0..=9).collect() };
    for end in ends() {
        for &cap in &caps {
            v.push(format!("wbfs:cap={}:end={}:F=0", cap, end));
            v.push(format!("wbfs:cap={}:end={}:F=1", cap, end));
            if thorough && cap <= 10 {
                v.push(format!("wbfs:cap={}:end={}:F=2", cap, end));
            }
        }
    }
    // binding runs: the same judge applied to what the real sinks put on the spy channel / real sockets
    for cap in ["0", "1", "2", "4", "8"] {
        v.push(format!("sock-buf:sink=spy:cap={}:depth={}", cap, if thorough { 5 } else { 4 }));
    }
    for ctor in ["0", "1"] {
        v.push(format!("sock-buf:sink=spy:depth={}:ctor={}", if thorough { 3 } else { 2 }, ctor));
    }
    v.push("sock-buf:sink=spy:cap=16384:depth=3".to_string());
    v.push("sock-buf:sink=udp:cap=8932:depth=2".to_string());
    for sink in ["udp", "unix"] {
        v.push(format!("sock-buf:sink={}:cap=8:depth={}", sink, if thorough { 4 } else { 3 }));
        v.push(format!("sock-buf:sink={}:depth=2", sink));
    }
    v.push(format!("sock-buf:sink=unix:cap=4:faults=1:depth={}", if thorough { 7 } else { 5 }));
    v.push(format!("sock-buf:sink=unix:cap=8:faults=1:depth={}", if thorough { 6 } else { 5 }));
    v.push(format!("sock-buf:sink=unix:cap=4:faults=1:fault=eagain:depth={}", if thorough { 6 } else { 5 }));
    for sink in ["udp", "unix"] {
        for cap in ["0", "1"] {
            v.push(format!("sock-buf:sink={}:cap={}:depth=3", sink, cap));
        }
    }
    for (cap, q) in [(4, 1), (3, 2), (8, 1)] {
        v.push(format!("spyq:cap={}:q={}:depth={}", cap, q, if thorough { 6 } else { 5 }));
    }
    // realistic capacities with an explicit length alphabet (every length cannot be enumerated there)
    for (cap, lens) in [
        (512usize, "0,1,255,256,509,510,511,512,513"),
        (1432, "1,715,716,1430,1431,1432,1433"),
        (8192, "1,4095,4096,8190,8191,8192,8193"),
        (16384, "1,4000,8191,8192,8193,12000,16382,16383,16384,16385"),
        (65536, "1,8192,30000,32767,65534,65535,65536"),
        (100000, "1,1000,34463,34464,65506,65507,65508,65535,65536,99998,99999,100000"),
        (131072, "1,1000,65505,65506,65507,65535,65536,65537,131070,131071,131072"),
    ] {
        v.push(format!("wtree:cap={}:end=n:depth={}:Fop=0:Fh=0:lens={}", cap, if thorough { 5 } else { 4 }, lens));
        v.push(format!("wtree:cap={}:end=n:depth=3:Fop=1:Fh=2:lens={}", cap, lens));
    }
    // long fixed histories (not enumerated): accumulated state, counters, growth thresholds
    for (cap, end) in [(512usize, "n"), (1432, "n"), (16, "n"), (8, "rn"), (64, "e"), (9000, "n"), (70000, "n"), (140000, "n")] {
        v.push(format!("wlong:cap={}:end={}:n={}", cap, end, if thorough { 400_000 } else { 120_000 }));
        v.push(format!("wlong:cap={}:end={}:n={}:fail=7", cap, end, if thorough { 200_000 } else { 70_000 }));
    }
    // very large capacities on the real sinks (lengths around the UDP payload limit and 64 KiB)
    v.push("sock-buf:sink=udp:cap=100000:depth=3:lens=1,30000,35507,65506,65507,65508,70000,99999".to_string());
    v.push("sock-buf:sink=unix:cap=100000:depth=3:lens=1,30000,35507,65506,65507,65508,99999".to_string());
    v.push("sock-buf:sink=spy:cap=131072:depth=3:lens=1,1000,65505,65506,65507,65535,65536,65537,131071,131072".to_string());
    v.push("sock-buf:sink=udp:cap=8:depth=2:lens=1,7,65507,65508,70000".to_string());
    // accessors must not write: stats() between emits on the socket sinks
    for sink in ["udp", "unix"] {
        v.push(format!("sock-buf:sink={}:cap=8:stats=1:depth={}", sink, if thorough { 4 } else { 3 }));
    }
    // flush racing emit / flush on one shared sink (all interleavings)
    for prog in ["EF.EE", "EE.F.E", "E.F", "EF.EF"] {
        for sink in ["spy", "unix", "udp"] {
            v.push(format!("mutex:sink={}:via=sink:cap=6:prog={}", sink, prog));
        }
    }
    // flush through the client and through a queuing wrapper (C06)
    for cap in [9, 16] {
        v.push(format!("clientflush:cap={}:depth={}", cap, if thorough { 6 } else { 5 }));
    }
    for cap in [16, 512] {
        v.push(format!("qflush:cap={}:prog={}WF:P=0", cap, "E".repeat(300)));
    }
    for prog in ["EEWF", "EEF", "EFEF", "EEWFEF", "EWFEWF", "EEEF"] {
        for cap in [6, 16] {
            v.push(format!("qflush:cap={}:prog={}:P={}", cap, prog, if thorough { 4 } else { 3 }));
        }
        v.push(format!("qflush:cap=16:qcap=1:prog={}:P=3", prog));
        v.push(format!("qflush:cap=16:h=1:prog={}:P=3", prog));
        // a bounded spy channel behind the buffered sink: a flush that is refused must say so
        v.push(format!("qflush:cap=16:sq=1:h=1:prog={}:P=3", prog));
        v.push(format!("qflush:cap=16:sq=1:prog={}WF:P=3", prog));
        v.push(format!("qflush:cap=16:h=1:qcap=2:prog={}:P=3", prog));
    }
    // UDP sinks over a caller-connected socket whose peer goes away and comes back (the one way a
    // real UDP write fails on loopback: a queued ECONNREFUSED)
    for cap in [0, 8, 16, 64] {
        v.push(format!("sock-conn:cap={}:depth={}", cap, if thorough { 7 } else { 5 }));
    }
    // handles of the queuing wrapper dropped while the buffered sink behind it holds metrics (three
    // lines fit a datagram): dropping a clone is not a reason to write
    for prog in ["EWXEWF", "EXEWXEF", "EEWXWEEEEWF", "XEEWF", "EWXWEWXWE"] {
        v.push(format!("qflush:cap=32:prog={}:P=2", prog));
        v.push(format!("qflush:cap=32:h=1:qcap=4:prog={}:P=2", prog));
    }
    // unmerged tree: split on the first operation for parallelism
    let tree: Vec<(usize, usize)> = if thorough {
        vec![(0, 7), (1, 7), (2, 7), (3, 7), (4, 6), (5, 6), (6, 6), (8, 5)]
    } else {
        vec![(0, 5), (1, 5), (2, 5), (3, 5), (4, 4), (8, 4)]
    };
    for end in ends() {
        for &(cap, depth) in &tree {
            let n_ops = cap + 3 + 1 - if end == "e" { 1 } else { 0 };
            for first in 0..n_ops {
                v.push(format!("wtree:cap={}:end={}:depth={}:Fop=0:Fh=0:first={}", cap, end, depth, first));
                let fd = if thorough { depth.saturating_sub(1).max(3) } else { depth.saturating_sub(1).max(3) };
                v.push(format!(
                    "wtree:cap={}:end={}:depth={}:Fop={}:Fh={}:first={}",
                    cap,
                    end,
                    fd,
                    if thorough { 2 } else { 1 },
                    if thorough { 3 } else { 2 },
                    first
                ));
            }
        }
    }
    v
}

fn holder(tier: &str) -> Vec<String> {
    // U<n>: the set is made by a destructor while its thread unwinds from a panic
    let mut progs = vec!["S1.S2.GG", "S1.GI.G", "S1S2.GG", "S1.S2G", "S1.IG", "S1.S2.G", "S1.G.I", "S1G.S2G", "S1.S2", "U1.S2.GG", "U1G.S2G", "S1.U2G"];
    if tier == "thorough" {
        progs.extend(["S1.S2.GIG", "S1G.S2G.GI", "S1.GIG.IG", "S1S2.GI.IG", "S1.S2.S3G", "S1I.S2G.GI", "S1.S2.S3", "S1.S2.G.I", "S1G.S2I.G"]);
    }
    let mut v: Vec<String> = progs.iter().map(|p| format!("holder:prog={}", p)).collect();
    v.push(format!("holderseq:depth={}", if tier == "thorough" { 6 } else { 4 }));
    // the global client seen from other threads and from thread-local destructors
    v.push("probe:cfg=A".to_string());
    v.push("probe:cfg=F".to_string());
    v.push("probe:cfg=G".to_string());
    v
}

/// All handle histories of length <= n over {E(h), C(h), D(h)} with at most 3 handles ever
/// created, every referenced handle alive, and at least one emit.
fn handle_histories(n: usize) -> Vec<String> {
    fn rec(cur: &mut Vec<String>, alive: &mut Vec<bool>, n: usize, out: &mut Vec<String>) {
        if cur.iter().any(|o| o.starts_with('E')) {
            out.push(cur.concat());
        }
        if cur.len() == n {
            return;
        }
        for h in 0..alive.len() {
            if !alive[h] {
                continue;
            }
            cur.push(format!("E{}", h));
            rec(cur, alive, n, out);
            cur.pop();
            if alive.len() < 3 {
                cur.push(format!("C{}", h));
                alive.push(true);
                rec(cur, alive, n, out);
                alive.pop();
                cur.pop();
            }
            cur.push(format!("D{}", h));
            alive[h] = false;
            rec(cur, alive, n, out);
            alive[h] = true;
            cur.pop();
        }
    }
    let mut out = vec![];
    rec(&mut vec![], &mut vec![true], n, &mut out);
    out
}

fn all_scripts(alpha: &[char], n: usize) -> Vec<String> {
    let mut v = vec![String::new()];
    for _ in 0..n {
        v = v.iter().flat_map(|s| alpha.iter().map(move |c| format!("{}{}", s, c))).collect();
    }
    v
}

/// Append preemption bound and execution cap to a queue spec, chosen from the size of the
/// program: small programs are explored without any bound (all interleavings).
fn bounded(spec: String, tier: &str) -> String {
    // an explicit bound in a generator is an upper limit; the weight rule below may lower it
    let mut explicit: Option<usize> = None;
    let spec = match spec.find(":P=") {
        Some(i) => {
            let rest = &spec[i + 3..];
            let end = rest.find(':').map(|e| i + 3 + e).unwrap_or(spec.len());
            explicit = spec[i + 3..end].parse().ok();
            format!("{}{}", &spec[..i], &spec[end..])
        }
        None => spec,
    };
    if spec.contains(":D=") {
        // delay-bounded instances carry their own bound
        return format!("{}:max={}", spec, if tier == "thorough" { 4_000_000 } else { 400_000 });
    }
    let get = |k: &str| spec.split(':').find_map(|p| p.strip_prefix(k)).unwrap_or("").to_string();
    let prog = get("prog=");
    let prods = get("prod=");
    let script = get("script=");
    let samples: usize = get("sampler=").parse().unwrap_or(0);
    let emits = prog.matches('E').count() + prods.matches('E').count();
    let panics = script.matches('p').count().min(emits);
    let reads = prog.matches('R').count();
    let threads = if prods.is_empty() { 0 } else { prods.split(',').count() } + if samples > 0 { 1 } else { 0 };
    let w = emits + panics + samples + reads / 2 + 2 * threads;
    let th = tier == "thorough";
    let p = if threads == 0 {
        if w <= if th { 4 } else { 3 } {
            None
        } else if w <= if th { 7 } else { 5 } {
            Some(if th { 4 } else { 3 })
        } else {
            Some(if th { 3 } else { 2 })
        }
    } else if w <= 6 {
        Some(if th { 4 } else { 2 })
    } else if w <= 9 {
        Some(if th { 3 } else { 2 })
    } else {
        Some(if th { 2 } else { 1 })
    };
    let cap = if th { 4_000_000 } else { 400_000 };
    let p = match (p, explicit) {
        (Some(a), Some(b)) => Some(a.min(b)),
        (None, Some(b)) => Some(b),
        (a, None) => a,
    };
    match p {
        None => format!("{}:max={}", spec, cap),
        Some(p) => format!("{}:P={}:max={}", spec, p, cap),
    }
}

/// Instances aimed at thresholds beyond the small scope: long single-producer runs along the
/// canonical schedule, large capacities filled to the brim, very long metrics, many threads under
/// delay bounding, and the complete error alphabet (every io::ErrorKind, every errno 1..=133).
fn queue_thresholds(what: &str, tier: &str) -> Vec<String> {
    let th = tier == "thorough";
    let mut v: Vec<String> = vec![];
    let e = |n: usize| "E0".repeat(n);
    match what {
        "errors" => {
            for k in 0..40 {
                v.push(format!("queue:cap=u:script=eoe:kind={}:prog=E0E0E0W", k));
            }
            for n in 1..=133 {
                v.push(format!("queue:cap=u:script=eo:errno={}:prog=E0E0W", n));
            }
        }
        "long" => {
            // long backlogs (the canonical schedule lets main run first), panics sprinkled in
            let sprinkled: String = (0..300).map(|i| if i % 7 == 3 { 'p' } else if i % 11 == 5 { 'e' } else { 'o' }).collect();
            v.push(format!("queue:cap=u:script={}:prog={}W:P=0", sprinkled, e(300)));
            v.push(format!("queue:cap=u:script={}:prog={}QRE0E0QR:P=0", sprinkled, e(300)));
            v.push(format!("queue:cap=u:script={}:prog={}:P=0", sprinkled, e(300)));
            v.push(format!("queue:cap=400:script={}:prog={}QRE0QR:P=0", sprinkled, e(420)));
            // long streaks of one outcome
            v.push(format!("queue:cap=u:script={}:prog={}QRE0E0W:P=0", "p".repeat(130), e(130)));
            v.push(format!("queue:cap=u:script={}:prog={}QRE0E0W:P=0", "e".repeat(140), e(140)));
            v.push(format!("queue:cap=u:script={}:prog={}:P=0", "p".repeat(130), e(135)));
            v.push(format!("queue:cap=u:script={}:h=0:prog={}W:P=0", "e".repeat(140), e(140)));
            // many long metrics that panic (accumulated bytes: 72 MB)
            v.push(format!("queue:cap=u:big=60000:script={}:prog={}QE0E0W:P=0", "p".repeat(1200), e(1200)));
            let _ = th;
        }
        "big" => {
            for big in [65507usize, 65508, 70000, 200_000] {
                v.push(format!("queue:cap=u:big={}:prog=E0E0W", big));
                v.push(format!("queue:cap=1:big={}:script=oe:prog=E0E0D0", big));
            }
        }
        "caps" => {
            // capacities beyond typical pre-allocation thresholds, filled completely (gated sink)
            for cap in [4097usize, 5000, 16385, 20000] {
                // the worker takes the first metric and parks in the gated sink; then the queue is filled
                v.push(format!("queue:cap={}:script=b:prog=E0Q{}QROQR:P=0", cap, e(cap + 2)));
                // one slot left, two producers race for it
                v.push(format!("queue:cap={}:script=b:prog=E0Q{}SJQROQR:prod=E,E:P=2", cap, e(cap - 1)));
            }
        }
        _ => {
            // many threads, delay-bounded
            let many = vec!["E"; 18].join(",");
            v.push(format!("queue:cap=u:prog=SJQR:prod={}:D=1", many));
            v.push(format!("queue:cap=4:prog=SJQR:prod={}:D=1", many));
            let eight = vec!["E"; 8].join(",");
            v.push(format!("queue:cap=u:script=p:prog=SJQR:prod={}:D=2", eight));
        }
    }
    v
}

/// Programs that flush through the queuing sink (on handles and clones, with a backlog behind a
/// blocked wrapped sink, concurrently with producers). `what` selects the family a property needs.
fn queue_flush_programs(what: &str, tier: &str) -> Vec<String> {
    let th = tier == "thorough";
    let mut v = vec![];
    match what {
        // single-threaded histories with flushes in between, counters read at quiescent points
        "seq" => {
            for cap in ["u", "2"] {
                for sc in ["", "e", "p", "oe"] {
                    for prog in ["F0QR", "E0F0QR", "E0E0F0QRE0F0QR", "E0QF0F0RE0F0QR", "C0E0F1E1F0QRD1F0QR", "E0F0W", "E0E0F0E0W"] {
                        v.push(format!("queue:cap={}:script={}:prog={}", cap, sc, prog));
                    }
                    v.push(format!("queue:cap={}:script={}:ff=1:prog=E0F0QRE0F0W", cap, sc));
                }
            }
        }
        // a flush while the worker is blocked inside the wrapped sink and later metrics wait in the queue
        "backlog" => {
            for cap in ["u", "3"] {
                for sc in ["b", "be", "bee", "boe", "beo", "bp", "bep"] {
                    for order in ["hc", "ch"] {
                        v.push(format!("queue:cap={}:script={}:order={}:prog=E0E0E0F0OW", cap, sc, order));
                        v.push(format!("queue:cap={}:script={}:order={}:prog=E0E0F0E0F0OQR", cap, sc, order));
                    }
                    v.push(format!("queue:cap={}:script={}:h=0:prog=E0E0E0F0OW", cap, sc));
                }
            }
        }
        // flushes racing with the worker and with producers
        _ => {
            let pb = if th { 3 } else { 2 };
            for cap in ["u", "2"] {
                for sc in ["", "e", "oe", "p"] {
                    v.push(format!("queue:cap={}:script={}:prog=E0E0F0W:sy=1:P={}", cap, sc, pb));
                    v.push(format!("queue:cap={}:script={}:prog=E0E0E0F0QR:P={}", cap, sc, pb));
                    for pr in ["EF", "EEF,E", "EF,EF", "F,EE"] {
                        v.push(format!("queue:cap={}:script={}:prog=SJWQR:prod={}:P={}", cap, sc, pr, if pr.contains(',') { 2 } else { pb }));
                    }
                    v.push(format!("queue:cap={}:script={}:prog=SF0JW:prod=EE:sy=1:P={}", cap, sc, pb));
                }
            }
        }
    }
    v
}

fn c08(tier: &str) -> Vec<String> {
    let th = tier == "thorough";
    let mut v = vec![];
    let caps: &[&str] = if th { &["u", "1", "2", "0"] } else { &["u", "1"] };
    let scripts: &[&str] = if th { &["", "e", "i", "p", "op", "pp", "ip"] } else { &["", "p", "i"] };
    for h in handle_histories(if th { 5 } else { 4 }) {
        // a history that ends with all handles dropped cannot wait
        for cap in caps {
            for sc in scripts {
                v.push(format!("queue:cap={}:script={}:prog={}W", cap, sc, h));
                v.push(format!("queue:cap={}:script={}:prog={}", cap, sc, h));
            }
        }
    }
    // the empty string is a legal metric for a sink
    for cap in ["u", "1"] {
        for prog in ["Z0E0W", "E0Z0E0W", "Z0Z0", "C0Z1D1E0W", "Z0D0"] {
            v.push(format!("queue:cap={}:prog={}", cap, prog));
        }
    }
    // many queued metrics, all handles dropped at once, panics in between
    for cap in ["u", "4"] {
        for sc in ["p", "op", "pop", "ppp", "oop"] {
            v.push(format!("queue:cap={}:script={}:prog=E0E0E0E0", cap, sc));
            v.push(format!("queue:cap={}:script={}:prog=C0E0E1E0E1D0", cap, sc));
        }
    }
    // four producers (one preemption): more threads than the usual two or three
    v.push("queue:cap=u:prog=SJW:prod=E,E,E,E:P=1".to_string());
    if th {
        for cap in ["u", "2"] {
            v.push(format!("queue:cap={}:script=p:prog=SJ:prod=E,E,E,ED:P=1", cap));
        }
        v.push("queue:cap=2:prog=SJW:prod=E,E,E,E:P=1".to_string());
    }
    // a long run of one producer (default-ish schedules only): accumulated state in the worker
    v.push("queue:cap=u:script=opoe:prog=".to_string() + &"E0".repeat(60) + "W:P=0");
    v.push("queue:cap=3:prog=".to_string() + &"E0".repeat(40) + "QR:P=0");
    v.extend(queue_thresholds("long", tier));
    v.extend(queue_thresholds("big", tier));
    v.extend(queue_thresholds("errors", tier));
    v.extend(queue_thresholds("many", tier));
    // concurrent producers
    let pb = if th { 3 } else { 2 };
    let prods: &[&str] = if th { &["E,E", "EE,E", "EE,ED", "ED,ED", "EE,EE", "E,E,E", "EED,E"] } else { &["E,E", "EE,E", "EE,ED", "ED,ED", "EE,EE"] };
    for cap in ["u", "1", "2"] {
        for pr in prods {
            for prog in ["SJW", "SJ", "SE0JW", "SD0J"] {
                let p = if pr.matches(',').count() >= 2 { pb.min(2) } else { pb };
                v.push(format!("queue:cap={}:prog={}:prod={}:P={}", cap, prog, pr, p));
            }
        }
        // with a scheduling point inside the wrapped sink: is it ever entered twice at once?
        for pr in ["E,E", "EE,E", "EE,EE"] {
            v.push(format!("queue:cap={}:prog=SJW:prod={}:sy=1:P=2", cap, pr));
            v.push(format!("queue:cap={}:script=p:prog=SJW:prod={}:sy=1:P=2", cap, pr));
        }
    }
    for fam in ["seq", "backlog", "race"] {
        v.extend(queue_flush_programs(fam, tier));
    }
    v
}

fn c09(tier: &str) -> Vec<String> {
    let th = tier == "thorough";
    let mut v = vec![];
    let kmax = if th { 5 } else { 3 };
    for cap in ["0", "1", "2", "3", "u"] {
        let c: usize = cap.parse().unwrap_or(if th { 4 } else { 3 });
        for k in 0..=(c + 1).min(kmax) {
            for sc in all_scripts(&['o', 'e', 'p'], k) {
                let emits = "E0".repeat(k);
                v.push(format!("queue:cap={}:script={}:prog={}D0", cap, sc, emits));
                if k >= 1 {
                    // forced occupancy: the first call blocks until after the drop
                    v.push(format!("queue:cap={}:script=b{}:prog={}D0O", cap, &sc[1..], emits));
                }
            }
        }
        // several handles, last one dropped by another owner
        for prog in ["C0E0E1D0D1", "C0E1D1E0D0", "C0C1E2D0D1E2D2", "C0E0D0E1D1"] {
            for sc in ["", "p", "ep"] {
                v.push(format!("queue:cap={}:script={}:prog={}", cap, sc, prog));
            }
        }
        if cap == "u" {
            v.extend(queue_thresholds("long", tier));
            v.extend(queue_thresholds("caps", tier));
        }
        // handles dropped concurrently by different threads, with the reference-count operations of
        // the sink's `Arc`s as scheduling points (a last-handle test on a count is check-then-act)
        for pr in ["D", "ED", "D,D"] {
            if th || cap == "1" || cap == "u" {
                v.push(format!("queue:cap={}:prog=SD0J:prod={}:arc=1:P={}", cap, pr, if th { 3 } else { 2 }));
                v.push(format!("queue:cap={}:prog=E0SD0J:prod={}:arc=1:P=2", cap, pr));
            }
        }
        for pr in ["E,E", "ED,E", "EE,ED"] {
            v.push(format!("queue:cap={}:prog=SD0J:prod={}:P={}", cap, pr, if th { 3 } else { 2 }));
            v.push(format!("queue:cap={}:script=pp:prog=SD0J:prod={}:P={}", cap, pr, if th { 3 } else { 2 }));
        }
    }
    v
}

fn c10(tier: &str) -> Vec<String> {
    let th = tier == "thorough";
    let mut v = vec![];
    // capacity 0 is a rendezvous queue: Ok only on a direct hand-over to an idle worker
    for (sc, prog) in [("", "E0E0E0"), ("b", "E0E0E0O"), ("b", "E0QE0E0O"), ("ob", "E0QE0QE0E0O"), ("", "E0QE0QE0")] {
        for order in ["hc", "ch"] {
            v.push(format!("queue:cap=0:script={}:order={}:prog={}", sc, order, prog));
        }
        v.push(format!("queue:cap=0:script={}:h=0:prog={}", sc, prog));
    }
    for pr in ["E,E", "EE,E"] {
        v.push(format!("queue:cap=0:script=b:prog=E0QSJ:prod={}:P=2", pr));
        v.push(format!("queue:cap=0:prog=SJ:prod={}:P=2", pr));
    }
    for cap in ["1", "2", "3", "u"] {
        let c: usize = cap.parse().unwrap_or(2);
        let n = c + 2;
        let emits = "E0".repeat(n);
        for (sc, tail) in [("", ""), (&*"e".repeat(n), ""), (&*"p".repeat(n), ""), ("b", ""), ("ob", ""), ("b", "O")] {
            for order in ["hc", "ch"] {
                v.push(format!("queue:cap={}:script={}:order={}:prog={}{}", cap, sc, order, emits, tail));
            }
            v.push(format!("queue:cap={}:script={}:h=0:prog={}{}", cap, sc, emits, tail));
        }
        if cap == "u" {
            v.extend(queue_thresholds("caps", tier));
            v.extend(queue_thresholds("long", tier));
            v.extend(queue_thresholds("many", tier));
        }
        // concurrent producers racing for the last slots
        let prods: Vec<String> = if th { vec!["EE,EE".into(), "EEE,EE".into(), "E,E,E".into(), "EE,E,E".into()] } else { vec!["EE,EE".into(), "E,E,E".into()] };
        for pr in prods {
            for sc in ["", "b", "pp"] {
                let p = if pr.matches(',').count() >= 2 { 2 } else if th { 3 } else { 2 };
                v.push(format!("queue:cap={}:script={}:prog=SJ:prod={}:P={}", cap, sc, pr, p));
            }
        }
    }
    v
}

fn c11(tier: &str) -> Vec<String> {
    let th = tier == "thorough";
    let mut v = vec![];
    let nmax = if th { 4 } else { 3 };
    for n in 1..=nmax {
        for sc in all_scripts(&['o', 'e', 'p', 'i'], n) {
            if !sc.contains('p') || (sc.contains('i') && (n > 3 || sc.contains('e'))) {
                continue;
            }
            let emits = "E0".repeat(n);
            let pb = "";
            for cap in ["u", "2"] {
                // wait, read the counters, emit more, read again, drop
                v.push(format!("queue:cap={}:script={}:prog={}QRE0E0QR{}", cap, sc, emits, pb));
                // stop pending while panics happen
                v.push(format!("queue:cap={}:script={}:prog={}{}", cap, sc, emits, pb));
            }
        }
    }
    v.extend(queue_thresholds("long", tier));
    v.extend(queue_thresholds("errors", tier).into_iter().map(|s| s.replace("script=eo:", "script=ep:").replace("script=eoe:", "script=epe:")));
    // the empty string is a legal metric for a sink: accepted, delivered, and not the end of anything,
    // also right before / after a panic
    for cap in ["u", "2"] {
        for sc in ["p", "op", "po", "opo"] {
            for prog in ["Z0E0E0W", "E0Z0E0W", "E0Z0QRE0E0QR", "Z0Z0E0W"] {
                v.push(format!("queue:cap={}:script={}:prog={}", cap, sc, prog));
            }
        }
    }
    // a sampler reads panics() while the worker restarts: a metric that follows a panic is handed over
    // only after the panic was counted
    for cap in ["u", "3"] {
        for sc in ["p", "pp", "pop"] {
            v.push(format!("queue:cap={}:script={}:prog=E0E0E0SJW:sampler=2:P=2", cap, sc));
            v.push(format!("queue:cap={}:script={}:prog=SE0E0E0JW:sampler=3:P=2", cap, sc));
        }
    }
    // panics after the scripted prefix too (later metrics panic)
    for sc in ["opop", "oopp", "popo"] {
        v.push(format!("queue:cap=u:script={}:prog=E0E0QRE0E0QR", sc));
    }
    for pr in ["E,E", "EE,E"] {
        for sc in ["p", "pp", "op"] {
            v.push(format!("queue:cap=u:script={}:prog=SJQR:prod={}:P={}", sc, pr, if th { 3 } else { 2 }));
        }
    }
    v
}

fn c15(tier: &str) -> Vec<String> {
    let th = tier == "thorough";
    let mut v = vec![];
    v.extend(queue_thresholds("caps", tier));
    v.extend(queue_thresholds("many", tier));
    v.extend(queue_thresholds("long", tier));
    let pb = if th { 3 } else { 2 };
    for cap in ["1", "2", "u"] {
        for sc in ["", "p", "e"] {
            for (prog, prods, samples) in [
                ("SJQR", "EE", 1),
                ("SJQR", "EE", 2),
                ("SJQR", "EE,EE", 1),
                ("SE0E0JQR", "EE", 1),
                ("SJQR", "EEE", 1),
                ("SJQR", "EE,E", if th { 2 } else { 1 }),
                ("SJQRE0QR", "E,E", 0),
                ("C0SJD1QR", "EE,EE", 0),
            ] {
                v.push(format!("queue:cap={}:script={}:prog={}:prod={}:sampler={}:P={}", cap, sc, prog, prods, samples, pb));
            }
            // counters read while the wrapped sink is still busy with the first metric
            v.push(format!("queue:cap={}:script=b{}:prog=E0E0QROQR", cap, sc));
            // single threaded histories with refused emits, counters read at every quiescent point
            v.push(format!("queue:cap={}:script={}:prog=E0E0E0QRE0QRE0E0QR", cap, sc));
            v.push(format!("queue:cap={}:script={}:prog=RE0RE0RQR", cap, sc));
        }
    }
    // a flush is not a metric: counters after flushes, with a backlog, and with racing flushes
    for fam in ["seq", "backlog", "race"] {
        v.extend(queue_flush_programs(fam, tier));
    }
    v
}

fn c16(tier: &str) -> Vec<String> {
    let th = tier == "thorough";
    let mut v = vec![];
    let nmax = if th { 4 } else { 3 };
    for n in 1..=nmax {
        for sc in all_scripts(&['o', 'e', 'i', 'w'], n) {
            let emits = "E0".repeat(n);
            for cap in ["u", "2"] {
                for (h, order) in [(1, "hc"), (1, "ch"), (0, "hc")] {
                    v.push(format!("queue:cap={}:script={}:h={}:order={}:prog={}W", cap, sc, h, order, emits));
                }
            }
        }
    }
    for pr in ["E,E", "EE,E"] {
        for sc in ["e", "ee", "oe", "ie"] {
            v.push(format!("queue:cap=u:script={}:prog=SJW:prod={}:P={}", sc, pr, if th { 3 } else { 2 }));
        }
    }
    v.extend(queue_thresholds("errors", tier));
    v.extend(queue_thresholds("long", tier));
    // a wrapped sink whose flush fails too (dead connection): still one handler call per failed metric
    for sc in all_scripts(&['o', 'e', 'i'], 2) {
        for order in ["hc", "ch"] {
            v.push(format!("queue:cap=2:script={}:ff=1:order={}:prog=E0E0W", sc, order));
        }
    }
    // the last handle is dropped while failing metrics are still queued (forced with a gated first
    // call): the handler still sees every failure, once
    for cap in ["u", "3"] {
        for sc in ["be", "bee", "boe", "beo", "bie"] {
            for order in ["hc", "ch"] {
                v.push(format!("queue:cap={}:script={}:order={}:prog=E0E0E0D0O", cap, sc, order));
                v.push(format!("queue:cap={}:script={}:order={}:prog=C0E0E1E0D0D1O", cap, sc, order));
            }
        }
        for sc in ["e", "oe", "ee", "eoe"] {
            v.push(format!("queue:cap={}:script={}:prog=E0E0E0D0", cap, sc));
            v.push(format!("queue:cap={}:script={}:prog=C0E0E1D0E1D1", cap, sc));
        }
    }
    // a flush through the queuing sink never moves the handler (or the wrapped sink) to the caller
    for fam in ["seq", "backlog", "race"] {
        v.extend(queue_flush_programs(fam, tier));
    }
    v
}

fn c01(tier: &str) -> Vec<String> {
    let mut v = vec![];
    for row in 0..24 {
        for form in ["plain", "try", "send"] {
            v.push(format!("fmt01:row={}:form={}:tier={}", row, form, tier));
        }
        // delimiter-bearing strings: only the construction rule applies
        v.push(format!("fmt01:row={}:form=try:tier=quick:dirty=1", row));
        // strings that begin or end with white space
        v.push(format!("fmt01:row={}:form={}:tier=quick:ws=1", row, if row % 2 == 0 { "try" } else { "send" }));
        // every line length up to ~1.3 KiB, then around the powers of two up to 128 KiB
        v.push(format!("fmtlen:row={}:part=key:max={}", row, if tier == "thorough" { 2200 } else { 1100 }));
        // clients with default tags / container (every list of up to two default tags, among them a
        // single empty bare tag): the sections still appear exactly when supplied
        v.push(format!("fmt04:row={}:tier={}", row, tier));
    }
    // the numeric boundary values of C02 (durations at every position of a packed list included):
    // a value that cannot be sent must not produce a line at all
    v.push("num:part=dur".to_string());
    // histories of calls on one client with the sink refusing some of them: what a call hands to
    // the sink does not depend on how earlier calls ended (scratch state kept between calls)
    for i in 0..30 {
        v.push(format!("calls:part=seq:tier={}:chunk={}:of=30", tier, i));
    }
    for row in [0usize, 9, 15, 22] {
        v.push(format!("fmtlen:row={}:part=tags", row));
    }
    v
}

fn c02(_tier: &str) -> Vec<String> {
    let mut v = vec!["num:part=int".to_string(), "num:part=dur".to_string()];
    for i in 0..14 {
        v.push(format!("num:part=float:chunk={}:of=14", i));
    }
    v
}

fn c03(tier: &str) -> Vec<String> {
    let mut v: Vec<String> = (0..24).map(|r| format!("calls:part=single:row={}", r)).collect();
    for i in 0..30 {
        v.push(format!("calls:part=seq:tier={}:chunk={}:of=30", tier, i));
    }
    v.push("calls:part=reentrant".to_string());
    // the text handed to the sink is the text returned, also when it ends in white space
    for row in [0, 4, 9, 10, 13, 17, 21] {
        v.push(format!("fmt01:row={}:form=try:tier=quick:ws=1", row));
    }
    // two or three threads on one client, failures overlapping inside the error handler
    for prog in ["r.r", "r.i", "rr.r", "ri.ir", "r.o", "t.r", "r.r.r", "rt.tr"] {
        let p = if prog.len() >= 5 { ":P=3" } else { "" };
        v.push(format!("client2:prog={}{}", prog, p));
    }
    v
}

fn c12(tier: &str) -> Vec<String> {
    let th = tier == "thorough";
    let mut v = vec![];
    let progs: Vec<&str> = if th {
        vec!["EE.EE", "E.E.E", "EF.EE", "EE.F.E", "EFE.EF", "EEF.EEF", "EE.EE.F", "EF.EF.EF", "EEE.EE", "FE.EF"]
    } else {
        vec!["EE.EE", "E.E.E", "EF.EE", "EE.F.E", "EFE.EF", "E.F", "EF.EF"]
    };
    for prog in &progs {
        for (via, caps) in [("sink", [3usize, 6, 7]), ("client", [7, 14, 15])] {
            for cap in caps {
                v.push(format!("mutex:sink=spy:via={}:cap={}:prog={}", via, cap, prog));
            }
        }
        v.push(format!("mutex:sink=unix:via=sink:cap=6:prog={}", prog));
    }
    // a bounded spy channel refuses writes until the harness drains it
    for prog in ["EEF", "EEF.EF", "EEFR.EF", "EEF.R.EF", "EEFF.REF", "EEEF.F"] {
        for cap in [3, 6] {
            v.push(format!("mutex:sink=spy:q=1:via=sink:cap={}:prog={}", cap, prog));
        }
        // through the client, refusals reported as WouldBlock (a non-blocking socket under back-pressure)
        for cap in [7, 14] {
            v.push(format!("mutex:sink=spy:q=1:wb=1:via=client:cap={}:prog={}", cap, prog));
        }
    }
    // metrics of different lengths around a refused flush (a retained line plus an exactly fitting one)
    for prog in ["EEFEFRLF", "EEFEF.RLF", "EFLFRLF", "LEFEFRL.F", "EEFEFR.LF"] {
        for cap in [6, 7] {
            v.push(format!("mutex:sink=spy:q=1:via=sink:cap={}:prog={}", cap, prog));
        }
    }
    // a long backlog in front of the buffered sink (canonical schedule: the client runs first)
    for cap in [16, 512] {
        v.push(format!("qflush:cap={}:prog={}WF:P=0", cap, "E".repeat(300)));
        v.push(format!("qflush:cap={}:prog={}F{}WF:P=0", cap, "E".repeat(130), "E".repeat(70)));
    }
    // buffers larger than 64 KiB shared by two threads (a 64 KiB metric among short ones)
    for prog in ["HE.EF", "EH.FE", "EHE.E"] {
        for cap in [70000, 131072] {
            v.push(format!("mutex:sink=spy:via=sink:cap={}:prog={}", cap, prog));
        }
        v.push(format!("mutex:sink=unix:via=sink:cap=70000:prog={}", prog));
    }
    // with a scheduling point right after every unlock / send / store: a socket write made after the
    // buffer lock was released is a step of its own and may be overtaken
    for prog in ["EF.EF", "EEE.EE", "EEE.E", "EE.EF", "EFE.E"] {
        for sink in ["spy", "unix", "udp"] {
            v.push(format!("mutex:sink={}:via=sink:cap=6:prog={}:pp=1:P={}", sink, prog, if th { 4 } else { 3 }));
        }
        v.push(format!("mutex:sink=spy:via=client:cap=14:prog={}:pp=1:P={}", prog, if th { 4 } else { 3 }));
    }
    // one client -> queuing sink -> buffered sink, flush racing the worker: order and conservation
    for prog in ["EEF", "EEEF", "EFEF", "EEFEF"] {
        for cap in [6, 16] {
            v.push(format!("qflush:cap={}:prog={}:P={}", cap, prog, if th { 4 } else { 3 }));
        }
    }
    v
}

fn c13(tier: &str) -> Vec<String> {
    let th = tier == "thorough";
    let mut v = vec!["sock-unbuf:sink=udp".to_string(), "sock-unbuf:sink=udp6".into(), "sock-unbuf:sink=unix".into()];
    // the Unix sinks address a path: a new server takes the path over while the old one stays open;
    // buffered sinks dropped while their thread unwinds
    v.push(format!("sock-rebind:depth={}", if th { 6 } else { 5 }));
    // caller-connected UDP sockets, the peer going away and coming back
    v.push(format!("sock-conn:depth={}", if th { 9 } else { 7 }));
    for cap in [0, 8, 16] {
        v.push(format!("sock-conn:cap={}:depth={}", cap, if th { 7 } else { 5 }));
    }
    for sink in ["udp", "unix"] {
        for cap in ["8", "16", "1432"] {
            v.push(format!("sock-buf:sink={}:cap={}:depth={}", sink, cap, if th { 4 } else { 3 }));
        }
        // the default constructor: capacity must be 512
        v.push(format!("sock-buf:sink={}:depth={}", sink, if th { 4 } else { 3 }));
    }
    v.push(format!("sock-buf:sink=unix:cap=4:faults=1:depth={}", if th { 7 } else { 6 }));
    v.push(format!("sock-buf:sink=unix:cap=8:faults=1:depth={}", if th { 6 } else { 5 }));
    v.push(format!("sock-buf:sink=unix:cap=4:faults=1:fault=eagain:depth={}", if th { 6 } else { 5 }));
    for sink in ["udp", "unix"] {
        for cap in ["0", "1", "2"] {
            v.push(format!("sock-buf:sink={}:cap={}:depth={}", sink, cap, if th { 4 } else { 3 }));
        }
    }
    v.push("sock-buf:sink=udp:cap=100000:depth=3:lens=1,30000,35507,65506,65507,65508,70000,99999".to_string());
    v.push("sock-buf:sink=unix:cap=100000:depth=3:lens=1,30000,35507,65506,65507,65508,99999".to_string());
    v.push("sock-buf:sink=udp:cap=8:depth=2:lens=1,7,65507,65508,70000".to_string());
    // capacities above the usual buffer sizes (jumbo frames, Unix sockets)
    v.push("sock-buf:sink=udp:cap=16384:depth=3".to_string());
    v.push("sock-buf:sink=unix:cap=8932:depth=3".to_string());
    v.push("sock-buf:sink=unix:cap=32768:depth=2".to_string());
    // flush racing emit on the real socket sinks (all interleavings)
    for prog in ["EF.EE", "EE.F.E", "E.F", "EF.EF"] {
        for sink in ["unix", "udp"] {
            v.push(format!("mutex:sink={}:via=sink:cap=6:prog={}", sink, prog));
        }
    }
    v
}

fn c14(tier: &str) -> Vec<String> {
    let th = tier == "thorough";
    let mut v = vec!["sock-unbuf:sink=udp".to_string(), "sock-unbuf:sink=udp6".into(), "sock-unbuf:sink=unix".into()];
    for sink in ["unix", "unix-buf", "udp", "udp-buf"] {
        v.push(format!("sock-faults:sink={}:depth={}", sink, if th { 6 } else { 5 }));
    }
    v.push("sock-buf:sink=udp:cap=16:depth=3".into());
    v.push("sock-buf:sink=unix:cap=4:faults=1:depth=5".into());
    for prog in ["ooo", "oeo", "oooo", "eoo"] {
        v.push(format!("stats:mode=queue:prog={}", prog));
    }
    v.push("sock-volume".to_string());
    // more threads than any per-thread striping would give a private cell to (delay-bounded)
    let many = vec!["o"; 19].join(".");
    let many_e = vec!["oe"; 18].join(".");
    for mode in ["raw", "unix", "udp"] {
        v.push(format!("stats:mode={}:prog={}:D=1", mode, many));
    }
    v.push(format!("stats:mode=raw:prog={}:D=1", many_e));
    v.push("sock-buf:sink=udp:cap=100000:depth=3:lens=1,30000,35507,65506,65507,65508,70000,99999".to_string());
    let progs: Vec<&str> = if th { vec!["oo.oo", "oe.eo", "o.o.o", "oe.o.e", "ooo.oo", "oe.oe.oe", "oo.oo.o"] } else { vec!["oo.oo", "oe.eo", "o.o.o", "oe.o.e"] };
    for prog in progs {
        for mode in ["raw", "unix", "udp"] {
            let threads = prog.split('.').count();
            let ops = prog.len() - threads + 1;
            let p = if threads >= 3 && ops >= 5 { ":P=3" } else { "" };
            v.push(format!("stats:mode={}:prog={}{}", mode, prog, p));
        }
    }
    v
}

fn c17(_tier: &str) -> Vec<String> {
    ["A", "B", "C", "D", "E", "F", "G", "H", "T", "U"].iter().map(|c| format!("probe:cfg={}", c)).collect()
}

fn c20(tier: &str) -> Vec<String> {
    let mut v: Vec<String> = ["strings", "builders", "numbers", "lists", "buffers", "queues", "addresses"].iter().map(|p| format!("sweep:part={}", p)).collect();
    // the other engines run with overflow checks and debug assertions on and tag every panic C20
    for end in ends() {
        for cap in 0..=4 {
            v.push(format!("wbfs:cap={}:end={}:F=1", cap, end));
        }
    }
    v.extend(c02(tier));
    for row in 0..24 {
        v.push(format!("fmt01:row={}:form=try:tier=quick:dirty=1", row));
    }
    for cap in ["0", "1"] {
        for sc in ["", "p", "pp", "e"] {
            v.push(bounded(format!("queue:cap={}:script={}:prog=E0E0QRE0D0", cap, sc), tier));
            v.push(bounded(format!("queue:cap={}:script={}:prog=SJQR:prod=EE:sampler=1", cap, sc), tier));
        }
    }
    v.extend(c17(tier));
    v
}

fn c04(tier: &str) -> Vec<String> {
    let mut v: Vec<String> = (0..24).map(|row| format!("fmt04:row={}:tier={}", row, tier)).collect();
    // default tags, per-call tags, prefix and container of every length 0..300 and around 512, 4 KiB, 64 KiB
    for row in 0..24 {
        v.push(format!("fmtlen:row={}:part=tags", row));
        v.push(format!("fmtlen:row={}:part=key:max=600", row));
    }
    v
}

pub fn instances(prop: &str, tier: &str) -> Vec<String> {
    let q = |v: Vec<String>| v.into_iter().map(|s| bounded(s, tier)).collect::<Vec<_>>();
    match prop {
        "C01" => c01(tier),
        "C02" => c02(tier),
        "C03" => c03(tier),
        "C04" => c04(tier),
        "C17" => c17(tier),
        "C20" => c20(tier),
        "C12" => c12(tier),
        "C13" => c13(tier),
        "C14" => c14(tier),
        "C08" => q(c08(tier)),
        "C09" => q(c09(tier)),
        "C10" => q(c10(tier)),
        "C11" => q(c11(tier)),
        "C15" => q(c15(tier)),
        "C16" => q(c16(tier)),
        "C18" => holder(tier),
        "C05" | "C06" | "C07" | "C19" => writer(tier),
        _ => vec![],
    }
}
