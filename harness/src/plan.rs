//! Which engine instances decide which property, per tier.

fn ends() -> [&'static str; 3] {
    ["n", "rn", "e"]
}

fn writer(tier: &str) -> Vec<String> {
    let mut v = vec![];
    let thorough = tier == "thorough";
    // fixpoint BFS: failure-free (C05/C06/C19) and with failures (C07)
    let caps: Vec<usize> = if thorough { (0..=14).collect() } else { (0..=9).collect() };
    for end in ends() {
        for &cap in &caps {
            v.push(format!("wbfs:cap={}:end={}:F=0", cap, end));
            v.push(format!("wbfs:cap={}:end={}:F=1", cap, end));
            if thorough && cap <= 10 {
                v.push(format!("wbfs:cap={}:end={}:F=2", cap, end));
            }
        }
    }
    // unmerged tree: split on the first operation for parallelism
    let tree: Vec<(usize, usize)> = if thorough {
        vec![(0, 7), (1, 7), (2, 7), (3, 7), (4, 6), (5, 6), (6, 6), (8, 5)]
    } else {
        vec![(0, 5), (1, 5), (2, 5), (3, 5), (4, 4), (8, 4)]
    };
    for end in ends() {
        for &(cap, depth) in &tree {
            let n_ops = cap + 3 + 1 - if end == "e" { 1 } else { 0 };
            for first in 0..n_ops {
                v.push(format!("wtree:cap={}:end={}:depth={}:Fop=0:Fh=0:first={}", cap, end, depth, first));
                let fd = if thorough { depth.saturating_sub(1).max(3) } else { depth.saturating_sub(1).max(3) };
                v.push(format!(
                    "wtree:cap={}:end={}:depth={}:Fop={}:Fh={}:first={}",
                    cap,
                    end,
                    fd,
                    if thorough { 2 } else { 1 },
                    if thorough { 3 } else { 2 },
                    first
                ));
            }
        }
    }
    v
}

fn holder(tier: &str) -> Vec<String> {
    let mut progs = vec!["S1.S2.GG", "S1.GI.G", "S1S2.GG", "S1.S2G", "S1.IG", "S1.S2.G", "S1.G.I", "S1G.S2G", "S1.S2"];
    if tier == "thorough" {
        progs.extend(["S1.S2.GIG", "S1G.S2G.GI", "S1.GIG.IG", "S1S2.GI.IG", "S1.S2.S1G", "S1I.S2G.GI"]);
    }
    let mut v: Vec<String> = progs.iter().map(|p| format!("holder:prog={}", p)).collect();
    v.push(format!("holderseq:depth={}", if tier == "thorough" { 6 } else { 4 }));
    v
}

pub fn instances(prop: &str, tier: &str) -> Vec<String> {
    match prop {
        "C18" => holder(tier),
        "C05" | "C06" | "C07" | "C19" => writer(tier),
        _ => vec![],
    }
}
