//! `vh` — verification harness for 56quarters/cadence (see /verif/DESIGN.md).
//!
//! vh list <PROPERTY> <quick|thorough>     print the instance specs that decide the property
//! vh run <spec>...                        run instances, one JSON report per line on stdout
//! vh replay <file.json>                   replay a recorded violation
//! vh selftest                             engine self tests on toy programs
mod api;
mod calls;
mod common;
mod explore;
mod fmt;
mod fmtlen;
mod json;
mod num;
mod plan;
mod probe;
mod reffmt;
mod rt;
mod sc_client;
mod sc_holder;
mod sc_mutex;
mod sc_queue;
mod sc_stats;
mod sock;
mod sweep;
mod toy;
mod wmodel;
mod writer;

use json::Json;
use std::collections::BTreeMap;

/// Parsed instance spec: `engine:key=value:key=value`.
pub struct Spec {
    pub engine: String,
    pub kv: BTreeMap<String, String>,
    pub raw: String,
}

impl Spec {
    pub fn parse(s: &str) -> Spec {
        let mut it = s.split(':');
        let engine = it.next().unwrap_or("").to_string();
        let mut kv = BTreeMap::new();
        for p in it {
            if let Some((k, v)) = p.split_once('=') {
                kv.insert(k.to_string(), v.to_string());
            } else {
                kv.insert(p.to_string(), "1".to_string());
            }
        }
        Spec {
            engine,
            kv,
            raw: s.to_string(),
        }
    }
    pub fn usize(&self, k: &str, d: usize) -> usize {
        self.kv.get(k).and_then(|v| v.parse().ok()).unwrap_or(d)
    }
    pub fn opt_usize(&self, k: &str) -> Option<usize> {
        self.kv.get(k).and_then(|v| v.parse().ok())
    }
    pub fn str(&self, k: &str, d: &str) -> String {
        self.kv.get(k).cloned().unwrap_or_else(|| d.to_string())
    }
    pub fn end(&self) -> &'static str {
        match self.kv.get("end").map(|s| s.as_str()) {
            Some("rn") => "\r\n",
            Some("e") => "",
            _ => "\n",
        }
    }
}

/// Engines that must run in a process of their own (global state, possible aborts).
fn run_in_child(spec: &Spec) -> common::Report {
    let mut rep = common::Report::new(&spec.raw);
    let exe = std::env::current_exe().expect("current_exe");
    let out = std::process::Command::new(exe).arg("child").arg(&spec.raw).output();
    match out {
        Err(e) => rep.errors.push(format!("cannot start child: {}", e)),
        Ok(o) => {
            let stdout = String::from_utf8_lossy(&o.stdout);
            let line = stdout.lines().rev().find(|l| l.starts_with('{'));
            match (o.status.success(), line.and_then(|l| Json::parse(l).ok())) {
                (true, Some(j)) => return common::Report::from_json(&spec.raw, &j),
                _ => {
                    let stderr = String::from_utf8_lossy(&o.stderr);
                    let last = stderr.lines().rev().find(|l| l.starts_with("CASE ")).unwrap_or("(no case marker)").to_string();
                    let tail: String = stderr.lines().rev().take(6).collect::<Vec<_>>().join(" | ");
                    rep.evaluations = 1;
                    rep.violation(common::Violation {
                        props: if spec.engine == "probe" { vec!["C20", "C17", "C18"] } else { vec!["C20"] },
                        sig: "child/aborted".into(),
                        what: format!("the process running {} died ({}) during: {} -- stderr tail: {}", spec.raw, o.status, last, tail),
                        replay: Json::obj().set("engine", "child").set("spec", &spec.raw).set("last_case", last),
                    });
                }
            }
        }
    }
    rep
}

fn run_spec(spec: &Spec) -> common::Report {
    writer::LENS.with(|l| {
        *l.borrow_mut() = spec.kv.get("lens").map(|s| s.split(',').filter_map(|x| x.parse().ok()).collect());
    });
    match spec.engine.as_str() {
        "probe" | "sweep" => run_in_child(spec),
        "wbfs" => writer::bfs(spec.usize("cap", 8), spec.end(), spec.usize("F", 0), spec.usize("budget", 50_000_000) as u64),
        "wtree" => writer::tree(
            spec.usize("cap", 4),
            spec.end(),
            spec.usize("depth", 4),
            spec.usize("Fop", 0),
            spec.usize("Fh", 0),
            spec.opt_usize("first"),
        ),
        "wlong" => writer::long_history(spec.usize("cap", 512), spec.end(), spec.usize("n", 100_000), spec.usize("fail", 0)),
        "holder" => sc_holder::run(spec),
        "holderseq" => sc_holder::run_seq(spec),
        "queue" => sc_queue::run(spec),
        "fmt01" => fmt::run_c01(spec),
        "fmt04" => fmt::run_c04(spec),
        "fmtlen" => fmtlen::run(spec),
        "num" => num::run(spec),
        "calls" => calls::run(spec),
        "mutex" => sc_mutex::run(spec),
        "qflush" => sc_mutex::run_qflush(spec),
        "stats" => sc_stats::run(spec),
        "client2" => sc_client::run(spec),
        "sock-unbuf" => sock::unbuffered(spec),
        "sock-buf" => sock::buffered(spec),
        "sock-conn" => sock::connected_udp(spec),
        "sock-rebind" => sock::rebind_and_unwind(spec),
        "sock-faults" => sock::stats_faults(spec),
        "spyq" => sock::spy_bounded(spec),
        "sock-volume" => sock::stats_volume(spec),
        "clientflush" => sock::client_flush(spec),
        other => {
            let mut r = common::Report::new(&spec.raw);
            r.errors.push(format!("unknown engine {:?}", other));
            r
        }
    }
}

/// The scenario a sched spec denotes (for replay).
fn scenario_of(spec: &Spec) -> Option<Box<dyn explore::Scenario>> {
    match spec.engine.as_str() {
        "holder" => Some(Box::new(sc_holder::scenario(&spec.str("prog", "S1.G")))),
        "queue" => Some(Box::new(sc_queue::scenario(spec))),
        "mutex" => Some(Box::new(sc_mutex::scenario(spec))),
        "qflush" => Some(Box::new(sc_mutex::qflush_scenario(spec))),
        "stats" => Some(Box::new(sc_stats::scenario(spec))),
        "client2" => Some(Box::new(sc_client::scenario(spec))),
        _ => None,
    }
}

fn main() {
    let args: Vec<String> = std::env::args().collect();
    let cmd = args.get(1).map(|s| s.as_str()).unwrap_or("");
    match cmd {
        "list" => {
            let prop = args.get(2).expect("property id");
            let tier = args.get(3).map(|s| s.as_str()).unwrap_or("quick");
            for s in plan::instances(prop, tier) {
                println!("{}", s);
            }
        }
        "run" => {
            // silence the default panic message: engines catch and record panics themselves
            rt::install();
            for s in &args[2..] {
                let spec = Spec::parse(s);
                let t = std::time::Instant::now();
                let mut rep = run_spec(&spec);
                rep.instance = spec.raw.clone();
                let mut j = rep.to_json();
                j.put("wall_s", t.elapsed().as_secs_f64());
                println!("{}", j.render());
            }
        }
        "child" => {
            // silent hook: panics are caught and recorded by the engines
            std::panic::set_hook(Box::new(|_| {}));
            let spec = Spec::parse(args.get(2).expect("spec"));
            let rep = match spec.engine.as_str() {
                "probe" => probe::run_child(&spec),
                _ => sweep::run_child(&spec),
            };
            println!("{}", rep.to_json().render());
        }
        "selftest" => {
            rt::install();
            if !toy::selftest() {
                std::process::exit(1);
            }
        }
        "replay" => {
            rt::install();
            let path = args.get(2).expect("replay file");
            let text = std::fs::read_to_string(path).expect("cannot read replay file");
            let doc = Json::parse(&text).expect("replay file is not JSON");
            let body = doc.get("replay").cloned().unwrap_or(doc.clone());
            let (bad, text) = match body.str_at("engine").as_str() {
                "writer" => writer::replay(&body),
                "sched" => {
                    let spec = Spec::parse(&body.str_at("spec"));
                    let choices = body.usizes_at("choices");
                    let sigs: Vec<u64> = body
                        .get("signatures")
                        .and_then(|a| a.as_arr())
                        .map(|a| a.iter().filter_map(|x| x.as_str().and_then(|s| u64::from_str_radix(s, 16).ok())).collect())
                        .unwrap_or_default();
                    match scenario_of(&spec) {
                        Some(scn) => explore::replay(&*scn, choices, sigs),
                        None => (false, format!("no scenario for spec {:?}", spec.raw)),
                    }
                }
                _ => {
                    // enumeration engines: re-run the instance that found it and look for the same signature
                    let inst = doc.str_at("instance");
                    let sig = doc.str_at("sig");
                    let rep = run_spec(&Spec::parse(&inst));
                    let hits: Vec<&common::Violation> = rep.violations.iter().filter(|v| v.sig == sig).collect();
                    let mut text = format!("replay: re-ran instance {}\n", inst);
                    for v in &hits {
                        text.push_str(&format!("  BREACH {:?}: {}\n", v.props, v.what));
                    }
                    (!hits.is_empty(), text)
                }
            };
            print!("{}", text);
            if bad {
                println!("REPLAY: violation reproduced");
                std::process::exit(1);
            } else {
                println!("REPLAY: no violation");
            }
        }
        _ => {
            eprintln!("usage: vh list <PROP> <tier> | run <spec>... | replay <file> | selftest");
            std::process::exit(2);
        }
    }
}
