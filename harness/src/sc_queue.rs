//! sched/queue: all interleavings of small programs over a real `QueuingMetricSink`
//! (C08, C09, C10, C11, C15, C16), judged by a FIFO reference queue and end-state checks.
//!
//! Program text (spec key `prog`, main thread): `E<h>` emit on handle h, `C<h>` clone handle h,
//! `D<h>` drop handle h, `W` wait until everything accepted so far was handed over, `Q` wait for a
//! quiescent moment, `R` read the counters, `O` open the gate a blocked wrapped sink waits on,
//! `F<h>` flush through handle h, `S` spawn the producers and the sampler, `J` join them. Handles still alive when the program
//! ends are dropped in creation order. Producers (spec key `prod`, comma separated): `E` emit on
//! their own clone, `F` flush through it, `D` drop it. `sy=1` puts a scheduling point inside the wrapped
//! sink's emit (so that two concurrent invocations can be observed). Script (spec key `script`): outcome of the wrapped sink per
//! call in order: o=Ok, e=Err(Other), i=Err(Interrupted), w=Err(WouldBlock), p=panic,
//! b=block on the gate then Ok; calls beyond the script succeed.
use crate::common::{hash_of, Report};
use crate::explore::{self, Bounds, Scenario, Verdict};
use crate::rt::{self, EndState, Gate};
use crate::wmodel::Breach;
use crate::writer::Injected;
use cadence::verif::OpKind;
use cadence::{MetricSink, QueuingMetricSink, QueuingMetricSinkBuilder};
use std::io;
use std::panic::{self, AssertUnwindSafe};
use std::sync::atomic::{AtomicUsize, Ordering};
use std::sync::{Arc, Mutex};

#[derive(Clone, Debug, PartialEq)]
enum Log {
    /// wrapped sink invoked: (call index, metric, thread)
    SinkCall(usize, String, usize),
    /// wrapped sink returned an error with this payload id
    SinkErr(usize, usize),
    SinkOk(usize),
    SinkPanic(usize),
    /// error handler invoked: (payload id, thread)
    Handler(Option<usize>, usize),
    SinkDropped(usize),
    /// wrapped sink's flush invoked on this thread
    SinkFlush(usize),
    FlushEnd {
        thread: usize,
        ok: bool,
        injected: bool,
        waited: bool,
        panicked: bool,
    },
    /// an operation of a harness thread began / ended
    Begin(usize, String),
    EmitEnd {
        thread: usize,
        metric: String,
        res: Result<usize, String>,
        injected: bool,
        waited: bool,
        panicked: bool,
    },
    DropEnd {
        thread: usize,
        waited: bool,
        panicked: bool,
        live_after: usize,
    },
    Counters {
        thread: usize,
        quiescent: bool,
        panics: u64,
        submitted: u64,
        drained: u64,
        queued: u64,
    },
    Sample {
        queued: u64,
        submitted: u64,
    },
    /// a concurrent read of panics() together with what the log said at that moment:
    /// panics logged so far, and panics logged before the latest invocation of the wrapped sink
    PanicSample {
        panics: u64,
        logged: u64,
        before_latest_call: u64,
    },
}

const MARK_EMIT_CALL: usize = 1;
const MARK_EMIT_RET: usize = 2;

struct Shared {
    log: Mutex<Vec<Log>>,
    accepted: AtomicUsize,
    handed: AtomicUsize,
    live: AtomicUsize,
    gate: Gate,
    script: Vec<u8>,
    calls: AtomicUsize,
    /// the wrapped sink's flush fails as well (a dead connection)
    flush_fails: bool,
    /// a scheduling point inside the wrapped sink's emit
    sink_yield: bool,
    /// which error an 'e' outcome produces: None = ErrorKind::Other with an identifiable payload,
    /// Some(n) with n < 1000 = the n-th ErrorKind of the table, n >= 1000 = raw OS error n - 1000
    err_code: Option<usize>,
}

/// Every stable `io::ErrorKind`.
pub const ALL_KINDS: [io::ErrorKind; 40] = [
    io::ErrorKind::NotFound,
    io::ErrorKind::PermissionDenied,
    io::ErrorKind::ConnectionRefused,
    io::ErrorKind::ConnectionReset,
    io::ErrorKind::HostUnreachable,
    io::ErrorKind::NetworkUnreachable,
    io::ErrorKind::ConnectionAborted,
    io::ErrorKind::NotConnected,
    io::ErrorKind::AddrInUse,
    io::ErrorKind::AddrNotAvailable,
    io::ErrorKind::NetworkDown,
    io::ErrorKind::BrokenPipe,
    io::ErrorKind::AlreadyExists,
    io::ErrorKind::WouldBlock,
    io::ErrorKind::NotADirectory,
    io::ErrorKind::IsADirectory,
    io::ErrorKind::DirectoryNotEmpty,
    io::ErrorKind::ReadOnlyFilesystem,
    io::ErrorKind::StaleNetworkFileHandle,
    io::ErrorKind::InvalidInput,
    io::ErrorKind::InvalidData,
    io::ErrorKind::TimedOut,
    io::ErrorKind::WriteZero,
    io::ErrorKind::StorageFull,
    io::ErrorKind::NotSeekable,
    io::ErrorKind::QuotaExceeded,
    io::ErrorKind::FileTooLarge,
    io::ErrorKind::ResourceBusy,
    io::ErrorKind::ExecutableFileBusy,
    io::ErrorKind::Deadlock,
    io::ErrorKind::CrossesDevices,
    io::ErrorKind::TooManyLinks,
    io::ErrorKind::InvalidFilename,
    io::ErrorKind::ArgumentListTooLong,
    io::ErrorKind::Interrupted,
    io::ErrorKind::Unsupported,
    io::ErrorKind::UnexpectedEof,
    io::ErrorKind::OutOfMemory,
    io::ErrorKind::Other,
    io::ErrorKind::ConnectionRefused,
];

/// Identity of an error for the log: the injected payload id, else 1_000_000 + raw OS error.
pub fn error_identity(e: &io::Error) -> Option<usize> {
    crate::writer::injected_id(e).or(e.raw_os_error().map(|n| 1_000_000 + n as usize))
}

impl Shared {
    fn push(&self, l: Log) {
        self.log.lock().unwrap().push(l);
    }
}

struct ScriptedSink {
    sh: Arc<Shared>,
}

impl MetricSink for ScriptedSink {
    fn emit(&self, metric: &str) -> io::Result<usize> {
        let idx = self.sh.calls.fetch_add(1, Ordering::SeqCst);
        let tid = rt::me().unwrap_or(usize::MAX);
        self.sh.push(Log::SinkCall(idx, metric.to_string(), tid));
        self.sh.handed.fetch_add(1, Ordering::SeqCst);
        if self.sh.sink_yield {
            rt::yield_point("in-sink");
        }
        match self.sh.script.get(idx).copied().unwrap_or(b'o') {
            b'e' | b'i' | b'w' => {
                let kind = match self.sh.script[idx] {
                    b'i' => io::ErrorKind::Interrupted,
                    b'w' => io::ErrorKind::WouldBlock,
                    _ => io::ErrorKind::Other,
                };
                match (self.sh.script[idx], self.sh.err_code) {
                    (b'e', Some(n)) if n >= 1000 => {
                        let errno = (n - 1000) as i32;
                        self.sh.push(Log::SinkErr(idx, 1_000_000 + errno as usize));
                        Err(io::Error::from_raw_os_error(errno))
                    }
                    (b'e', Some(n)) => {
                        self.sh.push(Log::SinkErr(idx, idx + 1));
                        Err(io::Error::new(ALL_KINDS[n % ALL_KINDS.len()], Injected(idx + 1)))
                    }
                    _ => {
                        self.sh.push(Log::SinkErr(idx, idx + 1));
                        Err(io::Error::new(kind, Injected(idx + 1)))
                    }
                }
            }
            b'p' => {
                self.sh.push(Log::SinkPanic(idx));
                panic::panic_any(rt::ScriptedPanic(format!("scripted panic on call {}", idx)))
            }
            b'b' => {
                self.sh.gate.pass("gate");
                self.sh.push(Log::SinkOk(idx));
                Ok(metric.len())
            }
            _ => {
                self.sh.push(Log::SinkOk(idx));
                Ok(metric.len())
            }
        }
    }

    fn flush(&self) -> io::Result<()> {
        self.flush_impl()
    }
}

impl ScriptedSink {
    fn flush_impl(&self) -> io::Result<()> {
        self.sh.push(Log::SinkFlush(rt::me().unwrap_or(usize::MAX)));
        if self.sh.flush_fails {
            Err(io::Error::new(io::ErrorKind::BrokenPipe, Injected(9000)))
        } else {
            Ok(())
        }
    }
}

impl Drop for ScriptedSink {
    fn drop(&mut self) {
        let tid = rt::me().unwrap_or(usize::MAX);
        self.sh.push(Log::SinkDropped(tid));
    }
}

#[derive(Clone)]
pub struct QueueScn {
    pub cap: Option<usize>,
    pub script: String,
    pub handler: bool,
    /// builder call order: handler before capacity
    pub handler_first: bool,
    pub prog: String,
    pub prods: Vec<String>,
    pub samples: usize,
    pub flush_fails: bool,
    pub err_code: Option<usize>,
    /// pad every metric to at least this many bytes
    pub big: usize,
    /// reference-count operations of the sink's `Arc`s are scheduling points
    pub arc: bool,
    pub sink_yield: bool,
    pub text: String,
}

pub fn scenario(spec: &crate::Spec) -> QueueScn {
    let cap = match spec.str("cap", "u").as_str() {
        "u" => None,
        n => n.parse().ok(),
    };
    QueueScn {
        cap,
        script: spec.str("script", ""),
        handler: spec.usize("h", 1) == 1,
        handler_first: spec.str("order", "hc") == "hc",
        prog: spec.str("prog", "E0"),
        prods: spec.kv.get("prod").map(|p| p.split(',').map(|s| s.to_string()).collect()).unwrap_or_default(),
        samples: spec.usize("sampler", 0),
        flush_fails: spec.usize("ff", 0) == 1,
        err_code: spec.opt_usize("kind").or(spec.opt_usize("errno").map(|n| 1000 + n)),
        big: spec.usize("big", 0),
        arc: spec.usize("arc", 0) == 1,
        sink_yield: spec.usize("sy", 0) == 1,
        text: spec.raw.clone(),
    }
}

fn emit_on(sh: &Shared, q: &QueuingMetricSink, thread: usize, metric: &str) {
    sh.push(Log::Begin(thread, format!("emit {}", metric)));
    let b0 = rt::my_blocked_count();
    rt::mark(MARK_EMIT_CALL, thread);
    let r = panic::catch_unwind(AssertUnwindSafe(|| q.emit(metric)));
    rt::mark(MARK_EMIT_RET, thread);
    let waited = rt::my_blocked_count() != b0;
    match r {
        Ok(res) => {
            if res.is_ok() {
                sh.accepted.fetch_add(1, Ordering::SeqCst);
            }
            let injected = res.as_ref().err().map(|e| crate::writer::injected_id(e).is_some()).unwrap_or(false);
            sh.push(Log::EmitEnd {
                thread,
                metric: metric.to_string(),
                res: res.map_err(|e| e.to_string()),
                injected,
                waited,
                panicked: false,
            });
        }
        Err(_) => sh.push(Log::EmitEnd {
            thread,
            metric: metric.to_string(),
            res: Err("panic".into()),
            injected: false,
            waited,
            panicked: true,
        }),
    }
}

fn drop_handle(sh: &Shared, q: QueuingMetricSink, thread: usize) {
    sh.push(Log::Begin(thread, "drop".into()));
    let b0 = rt::my_blocked_count();
    let live_after = sh.live.fetch_sub(1, Ordering::SeqCst) - 1;
    let r = panic::catch_unwind(AssertUnwindSafe(move || drop(q)));
    let waited = rt::my_blocked_count() != b0;
    sh.push(Log::DropEnd {
        thread,
        waited,
        panicked: r.is_err(),
        live_after,
    });
}

fn flush_on(sh: &Shared, q: &QueuingMetricSink, thread: usize) {
    sh.push(Log::Begin(thread, "flush".into()));
    let b0 = rt::my_blocked_count();
    let r = panic::catch_unwind(AssertUnwindSafe(|| q.flush()));
    let waited = rt::my_blocked_count() != b0;
    match r {
        Ok(res) => sh.push(Log::FlushEnd {
            thread,
            ok: res.is_ok(),
            injected: res.as_ref().err().map(|e| crate::writer::injected_id(e).is_some()).unwrap_or(false),
            waited,
            panicked: false,
        }),
        Err(_) => sh.push(Log::FlushEnd {
            thread,
            ok: false,
            injected: false,
            waited,
            panicked: true,
        }),
    }
}

fn read_counters(sh: &Shared, q: &QueuingMetricSink, thread: usize, quiescent: bool) {
    let r = panic::catch_unwind(AssertUnwindSafe(|| (q.panics(), q.submitted(), q.drained(), q.queued())));
    if let Ok((panics, submitted, drained, queued)) = r {
        sh.push(Log::Counters {
            thread,
            quiescent,
            panics,
            submitted,
            drained,
            queued,
        });
    }
}

impl Scenario for QueueScn {
    fn name(&self) -> String {
        self.text.clone()
    }

    fn arc_points(&self) -> bool {
        self.arc
    }

    fn max_steps(&self) -> usize {
        20000 + 40 * (self.prog.len() + self.prods.iter().map(|p| p.len()).sum::<usize>())
    }

    fn make(&self) -> (Box<dyn FnOnce() + Send + 'static>, Box<dyn FnOnce(&EndState) -> Verdict + Send + 'static>) {
        let sh = Arc::new(Shared {
            log: Mutex::new(vec![]),
            accepted: AtomicUsize::new(0),
            handed: AtomicUsize::new(0),
            live: AtomicUsize::new(0),
            gate: Gate::new(false),
            script: self.script.as_bytes().to_vec(),
            calls: AtomicUsize::new(0),
            flush_fails: self.flush_fails,
            sink_yield: self.sink_yield,
            err_code: self.err_code,
        });
        let scn = self.clone();
        let sh2 = sh.clone();
        let body = Box::new(move || {
            let sh = sh2;
            let sink = ScriptedSink { sh: sh.clone() };
            let mut b = QueuingMetricSinkBuilder::new();
            let hsh = sh.clone();
            let handler = move |e: io::Error| {
                let tid = rt::me().unwrap_or(usize::MAX);
                hsh.push(Log::Handler(error_identity(&e), tid));
            };
            if scn.handler && scn.handler_first {
                b = b.with_error_handler(handler.clone());
            }
            if let Some(c) = scn.cap {
                b = b.with_capacity(c);
            }
            if scn.handler && !scn.handler_first {
                b = b.with_error_handler(handler);
            }
            let q0 = b.build(sink);
            sh.live.store(1, Ordering::SeqCst);
            let mut handles: Vec<Option<QueuingMetricSink>> = vec![Some(q0)];
            let mut spawned: Vec<rt::Tid> = vec![];
            let mut n_emit = 0usize;
            let p = scn.prog.as_bytes();
            let mut i = 0;
            let mut after_q = false;
            while i < p.len() {
                let c = p[i];
                let arg = if i + 1 < p.len() && p[i + 1].is_ascii_digit() { Some((p[i + 1] - b'0') as usize) } else { None };
                i += if arg.is_some() { 2 } else { 1 };
                match c {
                    b'E' => {
                        let h = arg.unwrap_or(0);
                        if let Some(Some(q)) = handles.get(h) {
                            let mut m = format!("m{}{}", n_emit, "x".repeat(n_emit % 3));
                            if m.len() < scn.big {
                                m.push_str(&"_".repeat(scn.big - m.len()));
                            }
                            n_emit += 1;
                            emit_on(&sh, q, 0, &m);
                        }
                        after_q = false;
                    }
                    b'Z' => {
                        // the empty string is a legal metric for a sink
                        let h = arg.unwrap_or(0);
                        if let Some(Some(q)) = handles.get(h) {
                            n_emit += 1;
                            emit_on(&sh, q, 0, "");
                        }
                        after_q = false;
                    }
                    b'C' => {
                        let h = arg.unwrap_or(0);
                        if let Some(Some(q)) = handles.get(h) {
                            let c = q.clone();
                            sh.live.fetch_add(1, Ordering::SeqCst);
                            handles.push(Some(c));
                        }
                    }
                    b'D' => {
                        let h = arg.unwrap_or(0);
                        if let Some(q) = handles.get_mut(h).and_then(|x| x.take()) {
                            drop_handle(&sh, q, 0);
                        }
                        after_q = false;
                    }
                    b'F' => {
                        let h = arg.unwrap_or(0);
                        if let Some(Some(q)) = handles.get(h) {
                            flush_on(&sh, q, 0);
                        }
                        after_q = false;
                    }
                    b'W' => {
                        let s = sh.clone();
                        rt::wait_until("all-handed-over", move || s.handed.load(Ordering::SeqCst) >= s.accepted.load(Ordering::SeqCst));
                    }
                    b'Q' => {
                        rt::wait_quiescent();
                        after_q = true;
                    }
                    b'R' => {
                        if let Some(q) = handles.iter().flatten().next() {
                            read_counters(&sh, q, 0, after_q);
                        }
                    }
                    b'O' => sh.gate.open(),
                    b'S' => {
                        for (pi, ops) in scn.prods.iter().enumerate() {
                            let Some(q) = handles.iter().flatten().next().cloned() else { break };
                            sh.live.fetch_add(1, Ordering::SeqCst);
                            let (sh, ops) = (sh.clone(), ops.clone());
                            spawned.push(rt::spawn("prod", move || {
                                let mut mine = Some(q);
                                let mut k = 0;
                                for op in ops.bytes() {
                                    match op {
                                        b'E' => {
                                            if let Some(q) = &mine {
                                                let m = format!("p{}_{}", pi + 1, k);
                                                k += 1;
                                                emit_on(&sh, q, pi + 1, &m);
                                            }
                                        }
                                        b'D' => {
                                            if let Some(q) = mine.take() {
                                                drop_handle(&sh, q, pi + 1);
                                            }
                                        }
                                        b'F' => {
                                            if let Some(q) = &mine {
                                                flush_on(&sh, q, pi + 1);
                                            }
                                        }
                                        _ => {}
                                    }
                                }
                                if let Some(q) = mine.take() {
                                    drop_handle(&sh, q, pi + 1);
                                }
                            }));
                        }
                        if scn.samples > 0 {
                            if let Some(q) = handles.iter().flatten().next().cloned() {
                                sh.live.fetch_add(1, Ordering::SeqCst);
                                let (sh, n) = (sh.clone(), scn.samples);
                                spawned.push(rt::spawn("sampler", move || {
                                    for _ in 0..n {
                                        let r = panic::catch_unwind(AssertUnwindSafe(|| {
                                            let queued = q.queued();
                                            let submitted = q.submitted();
                                            (queued, submitted)
                                        }));
                                        if let Ok((queued, submitted)) = r {
                                            sh.push(Log::Sample { queued, submitted });
                                        }
                                        if let Ok(panics) = panic::catch_unwind(AssertUnwindSafe(|| q.panics())) {
                                            let mut log = sh.log.lock().unwrap();
                                            let logged = log.iter().filter(|l| matches!(l, Log::SinkPanic(_))).count() as u64;
                                            let last_call = log.iter().rposition(|l| matches!(l, Log::SinkCall(..))).unwrap_or(0);
                                            let before = log[..last_call].iter().filter(|l| matches!(l, Log::SinkPanic(_))).count() as u64;
                                            log.push(Log::PanicSample {
                                                panics,
                                                logged,
                                                before_latest_call: before,
                                            });
                                        }
                                    }
                                    drop_handle(&sh, q, 99);
                                }));
                            }
                        }
                    }
                    b'J' => {
                        for t in spawned.drain(..) {
                            rt::join(t);
                        }
                    }
                    _ => {}
                }
            }
            for h in handles.iter_mut() {
                if let Some(q) = h.take() {
                    drop_handle(&sh, q, 0);
                }
            }
        });
        let scn = self.clone();
        let judge = Box::new(move |end: &EndState| judge(&scn, end, &sh));
        (body, judge)
    }
}

fn br(out: &mut Vec<Breach>, props: &[&'static str], sig: &str, what: String) {
    out.push(Breach {
        props: props.to_vec(),
        sig: sig.to_string(),
        what,
    });
}

fn brief(v: Vec<String>) -> String {
    let v: Vec<String> = v.into_iter().map(|m| if m.len() > 24 { format!("{}..({}B)", &m[..12], m.len()) } else { m }).collect();
    if v.len() > 16 {
        format!("[{} .. {} ({} items)]", v[..6].join(","), v[v.len() - 4..].join(","), v.len())
    } else {
        format!("{:?}", v)
    }
}

fn judge(scn: &QueueScn, end: &EndState, sh: &Shared) -> Verdict {
    let log = sh.log.lock().unwrap().clone();
    let mut out: Vec<Breach> = vec![];
    let mut flags: Vec<&'static str> = vec![];
    let harness_thread = |t: usize| end.threads.get(t).map(|x| matches!(x.name.as_str(), "main" | "prod" | "sampler")).unwrap_or(false);

    // ---- raw facts -------------------------------------------------------------------------
    let mut accepted: Vec<(usize, String)> = vec![]; // (thread, metric) in order of return
    let mut refused = 0usize;
    let mut delivered: Vec<(String, usize)> = vec![];
    let mut dropped = 0usize;
    let n_panics_scripted = log.iter().filter(|l| matches!(l, Log::SinkPanic(_))).count();
    for l in &log {
        match l {
            Log::EmitEnd { thread, metric, res, injected, waited, panicked } => {
                match res {
                    Ok(n) => {
                        accepted.push((*thread, metric.clone()));
                        if *n != metric.len() {
                            br(&mut out, &["C10"], "emit-wrong-length", format!("emit({}) returned Ok({}) instead of the metric's byte length {}", metric, n, metric.len()));
                        }
                    }
                    Err(_) => refused += 1,
                }
                if *panicked {
                    br(&mut out, &["C10", "C20"], "emit-panicked", format!("emit({}) panicked on the caller's thread", metric));
                }
                if *injected {
                    br(&mut out, &["C10"], "sink-error-surfaced", format!("emit({}) returned the wrapped sink's own error", metric));
                }
                if *waited {
                    br(&mut out, &["C10"], "emit-waited", format!("emit({}) had to wait inside the queuing sink (it blocked on an operation that was not enabled)", metric));
                }
                if scn.cap.is_none() && res.is_err() && !*panicked {
                    // with panics scripted this is also "the sink keeps accepting metrics" (C11)
                    let props: &[&'static str] = if scn.script.contains('p') { &["C10", "C11"] } else { &["C10"] };
                    br(&mut out, props, "unbounded-refused", format!("emit({}) on an unbounded queue was refused: {:?}", metric, res));
                }
            }
            Log::DropEnd { waited, panicked, .. } => {
                if *panicked {
                    br(&mut out, &["C09", "C20"], "drop-panicked", "dropping a handle panicked".into());
                }
                if *waited {
                    br(&mut out, &["C09"], "drop-waited", "dropping a handle blocked (it waited for an operation that was not enabled)".into());
                }
            }
            Log::SinkCall(_, m, t) => {
                delivered.push((m.clone(), *t));
                if harness_thread(*t) {
                    br(&mut out, &["C10"], "sink-on-caller-thread", format!("the wrapped sink was run on a caller's thread (t{}) for {}", t, m));
                }
            }
            Log::SinkDropped(_) => dropped += 1,
            Log::FlushEnd { ok, injected, waited, panicked, .. } => {
                flags.push("flushed-through-the-queuing-sink");
                if *panicked {
                    br(&mut out, &["C06", "C20"], "flush-panicked", "flush on the queuing sink panicked".into());
                }
                if *waited {
                    br(&mut out, &["C10"], "flush-waited", "flush on the queuing sink blocked on an operation that was not enabled".into());
                }
                if *ok && scn.flush_fails {
                    br(&mut out, &["C06", "C07"], "flush-error-swallowed", "the wrapped sink's flush failed but flush on the queuing sink returned Ok".into());
                }
                if !*ok && !*panicked && !(scn.flush_fails && *injected) {
                    br(&mut out, &["C06"], "flush-failed", "flush on the queuing sink returned an error that is not the wrapped sink's".into());
                }
            }
            _ => {}
        }
    }
    // handed over one at a time: no invocation of the wrapped sink begins while another is running
    {
        let mut running: Option<(usize, String, usize)> = None;
        for l in &log {
            match l {
                Log::SinkCall(idx, m, t) => {
                    if let Some((_, m0, t0)) = &running {
                        br(&mut out, &["C08"], "sink-invoked-concurrently", format!("the wrapped sink was handed {} on thread {} while it was still processing {} on thread {}", m, t, m0, t0));
                    }
                    running = Some((*idx, m.clone(), *t));
                }
                Log::SinkOk(i) | Log::SinkPanic(i) | Log::SinkErr(i, _) => {
                    if running.as_ref().map(|r| r.0 == *i).unwrap_or(false) {
                        running = None;
                    }
                }
                _ => {}
            }
        }
    }
    for (t, p) in &end.panics {
        br(&mut out, &["C20", "C08", "C09", "C10", "C11", "C15"], "unexpected-panic", format!("thread {} panicked: {}", t, p));
    }
    if end.horizon {
        br(&mut out, &["C09"], "livelock", "execution exceeded the step horizon (some thread spins)".into());
    }

    // ---- which threads are stuck, and why ----------------------------------------------------
    let gate_blocked = end.threads.iter().any(|t| !t.finished && t.blocked_on.as_deref().map(|b| b.contains("[gate]")).unwrap_or(false));
    let live = sh.live.load(Ordering::SeqCst);
    for (i, t) in end.threads.iter().enumerate() {
        if t.finished {
            continue;
        }
        let on = t.blocked_on.clone().unwrap_or_default();
        if harness_thread(i) {
            if on.contains("[all-handed-over]") {
                if !gate_blocked {
                    br(&mut out, &["C08"], "accepted-never-delivered", format!("{} metrics were accepted but only {} were ever handed to the wrapped sink; nothing can make progress any more", sh.accepted.load(Ordering::SeqCst), sh.handed.load(Ordering::SeqCst)));
                }
            } else if on.contains("[join]") || on.contains("[quiescent]") || on.contains("[gate]") {
                // waiting for someone else who is stuck: reported there
            } else {
                // stuck inside a library call
                let last_begin = log.iter().rev().find_map(|l| match l {
                    Log::Begin(th, what) if *th == thread_index(i, end) => Some(what.clone()),
                    _ => None,
                });
                let what = last_begin.unwrap_or_default();
                if what.starts_with("emit") {
                    br(&mut out, &["C10"], "emit-blocked-forever", format!("{} never returned (blocked on {})", what, on));
                } else {
                    br(&mut out, &["C09"], "drop-blocked-forever", format!("'{}' never returned (blocked on {})", what, on));
                }
            }
        }
    }

    // ---- C08 / C11: delivered = accepted, once each, in order --------------------------------
    let all_ended = end.threads.iter().enumerate().all(|(i, t)| t.finished || !harness_thread(i));
    if all_ended && !gate_blocked {
        let acc: Vec<String> = accepted.iter().map(|a| a.1.clone()).collect();
        let del: Vec<String> = delivered.iter().map(|d| d.0.clone()).collect();
        let mut a2 = acc.clone();
        let mut d2 = del.clone();
        a2.sort();
        d2.sort();
        if a2 != d2 {
            let missing: Vec<&String> = acc.iter().filter(|m| !del.contains(m)).collect();
            let dup: Vec<&String> = del.iter().filter(|m| del.iter().filter(|x| x == m).count() > 1).collect();
            let foreign: Vec<&String> = del.iter().filter(|m| !acc.contains(m)).collect();
            let mut props: Vec<&'static str> = vec!["C08"];
            if live == 0 {
                props.push("C09");
            }
            if n_panics_scripted > 0 {
                props.push("C11");
            }
            br(&mut out, &props, "delivered-differs-from-accepted", format!("accepted {} but the wrapped sink was handed {} (never delivered: {}, delivered twice: {}, not accepted: {})", brief(acc.clone()), brief(del.clone()), brief(missing.iter().map(|s| s.to_string()).collect()), brief(dup.iter().map(|s| s.to_string()).collect()), brief(foreign.iter().map(|s| s.to_string()).collect())));
        } else {
            // order: per-thread program order, and real-time order between threads
            let posmap: std::collections::HashMap<&String, usize> = del.iter().enumerate().map(|(i, m)| (m, i)).collect();
            let pos = |m: &String| posmap.get(m).copied().unwrap_or(usize::MAX);
            let mut threads: Vec<usize> = accepted.iter().map(|a| a.0).collect();
            threads.sort();
            threads.dedup();
            for t in threads {
                let mine: Vec<&String> = accepted.iter().filter(|a| a.0 == t).map(|a| &a.1).collect();
                for w in mine.windows(2) {
                    if pos(w[0]) > pos(w[1]) {
                        let mut props = vec!["C08"];
                        if n_panics_scripted > 0 {
                            props.push("C11");
                        }
                        br(&mut out, &props, "producer-order-broken", format!("thread {} emitted {} before {} but the wrapped sink got them in the opposite order ({})", t, w[0], w[1], brief(del.clone())));
                        break;
                    }
                }
            }
            // exact FIFO: the order of the successful try_sends made inside emits (as reported by the
            // shim) is the order in which metrics were accepted; delivery must follow it
            let order = acceptance_order(end, &log);
            if order.len() == del.len() && order != del && order.iter().all(|m| posmap.contains_key(m)) {
                let mut props = vec!["C08"];
                if n_panics_scripted > 0 {
                    props.push("C11");
                }
                br(&mut out, &props, "fifo-order-broken", format!("metrics entered the queue in the order {} but were handed to the wrapped sink in the order {}", brief(order.clone()), brief(del.clone())));
            }
            // real-time precedence from the event log: emit A returned before emit B was called
            // (implied by the exact FIFO check; kept for small programs as an independent oracle)
            if acc.len() <= 64 {
                let spans = emit_spans(end, &log);
                for (ma, _, ra) in &spans {
                    for (mb, cb, _) in &spans {
                        if ra < cb && posmap.contains_key(ma) && posmap.contains_key(mb) && pos(ma) > pos(mb) {
                            br(&mut out, &["C08"], "acceptance-order-broken", format!("{} was accepted before emit({}) even began, but was delivered after it ({})", ma, mb, brief(del.clone())));
                        }
                    }
                }
            }
        }
    }

    // ---- C09: after the last drop the worker stops and releases the wrapped sink -------------
    if all_ended && live == 0 && !gate_blocked {
        for (i, t) in end.threads.iter().enumerate() {
            if !t.finished && !harness_thread(i) {
                br(&mut out, &["C09"], "worker-never-terminates", format!("all handles are dropped but library thread t{} is still alive, blocked on {}", i, t.blocked_on.clone().unwrap_or_default()));
            }
        }
        if dropped != 1 {
            br(&mut out, &["C09"], "wrapped-sink-not-released", format!("all handles are dropped and nothing can run any more, but the wrapped sink was dropped {} times (expected exactly once)", dropped));
        }
    }
    if dropped > 1 {
        br(&mut out, &["C09"], "wrapped-sink-dropped-twice", format!("wrapped sink dropped {} times", dropped));
    }
    if dropped >= 1 && live > 0 {
        br(&mut out, &["C09", "C08"], "wrapped-sink-released-early", "the wrapped sink was dropped while handles were still alive".into());
    }

    // ---- C10: exact occupancy from the channel operations reported by the shim ---------------
    if let Some(chan) = end.events.iter().find(|e| e.kind == Some(OpKind::ChanTrySend)).map(|e| e.a) {
        // results of the n-th emit of each harness thread
        let mut results: std::collections::HashMap<usize, Vec<bool>> = Default::default();
        for l in &log {
            if let Log::EmitEnd { thread, res, panicked, .. } = l {
                results.entry(*thread).or_default().push(res.is_ok() || *panicked);
            }
        }
        let mut nth: std::collections::HashMap<usize, usize> = Default::default();
        let mut occ: i64 = 0;
        // model tid -> (max occupancy seen during the call, own send failed on a full queue)
        let mut in_emit: std::collections::HashMap<usize, (i64, bool)> = Default::default();
        let cap = scn.cap.map(|c| c as i64);
        for e in &end.events {
            match e.kind {
                None if e.a == MARK_EMIT_CALL => {
                    in_emit.insert(e.tid, (occ, false));
                }
                None if e.a == MARK_EMIT_RET => {
                    let n = nth.entry(e.b).or_default();
                    let ok = results.get(&e.b).and_then(|v| v.get(*n)).copied().unwrap_or(true);
                    *n += 1;
                    if let (Some((maxocc, own_failed)), Some(c)) = (in_emit.remove(&e.tid), cap) {
                        if !ok && !own_failed && maxocc < c {
                            br(&mut out, if scn.script.contains('p') { &["C10", "C11"] } else { &["C10"] }, "refused-with-room", format!("an emit returned an error although the queue never held more than {} of its {} entries during the call", maxocc, c));
                        }
                    }
                }
                Some(OpKind::ChanTrySend) | Some(OpKind::ChanSend) if e.a == chan => {
                    if e.b == 1 {
                        occ += 1;
                        if let Some(c) = cap {
                            if occ > c.max(1) && in_emit.contains_key(&e.tid) {
                                br(&mut out, &["C10"], "capacity-exceeded", format!("the bounded queue (capacity {}) holds {} entries after an emit was accepted", c, occ));
                            }
                        }
                    } else if let (Some(c), Some(st)) = (cap, in_emit.get_mut(&e.tid)) {
                        if occ < c {
                            br(&mut out, if scn.script.contains('p') { &["C10", "C11"] } else { &["C10"] }, "refused-with-room", format!("emit was refused although the queue held only {} of {} entries", occ, c));
                        }
                        st.1 = true;
                        flags.push("emit-refused-when-full");
                    }
                    for v in in_emit.values_mut() {
                        v.0 = v.0.max(occ);
                    }
                }
                Some(OpKind::ChanRecv) | Some(OpKind::ChanTryRecv) if e.a == chan && e.b == 1 => {
                    occ -= 1;
                }
                _ => {}
            }
        }
    }

    // ---- C16: the handler sees each failure exactly once, on the worker thread ---------------
    {
        let mut i = 0;
        let proj: Vec<&Log> = log.iter().filter(|l| matches!(l, Log::SinkCall(..) | Log::SinkErr(..) | Log::Handler(..))).collect();
        while i < proj.len() {
            if let Log::SinkCall(idx, m, t) = proj[i] {
                // entries until the next call
                let mut j = i + 1;
                let mut err: Option<usize> = None;
                let mut handlers: Vec<(Option<usize>, usize)> = vec![];
                while j < proj.len() && !matches!(proj[j], Log::SinkCall(..)) {
                    match proj[j] {
                        Log::SinkErr(_, id) => err = Some(*id),
                        Log::Handler(id, ht) => handlers.push((*id, *ht)),
                        _ => {}
                    }
                    j += 1;
                }
                let is_last_and_unfinished = j == proj.len() && !all_ended;
                match (err, scn.handler) {
                    (Some(id), true) => {
                        if handlers.len() != 1 && !is_last_and_unfinished {
                            br(&mut out, &["C16"], "handler-count", format!("the wrapped sink failed on call {} ({}) but the error handler ran {} times before the next metric", idx, m, handlers.len()));
                        }
                        for (hid, ht) in &handlers {
                            if *hid != Some(id) {
                                br(&mut out, &["C16"], "handler-wrong-error", format!("the handler was given error {:?}, not the error #{} the wrapped sink returned for {}", hid, id, m));
                            }
                            if ht != t {
                                br(&mut out, &["C16"], "handler-wrong-thread", format!("the handler ran on thread {} but the wrapped sink on thread {}", ht, t));
                            }
                            if harness_thread(*ht) {
                                br(&mut out, &["C16", "C10"], "handler-on-caller-thread", format!("the handler ran on a caller's thread {}", ht));
                            }
                        }
                        flags.push("handler-invoked");
                    }
                    (_, _) => {
                        if !handlers.is_empty() {
                            br(&mut out, &["C16"], "handler-without-error", format!("the error handler ran {} times for call {} ({}) which did not fail / no handler configured", handlers.len(), idx, m));
                        }
                    }
                }
                i = j;
            } else {
                if let Log::Handler(id, _) = proj[i] {
                    br(&mut out, &["C16"], "handler-without-error", format!("the error handler ran (error {:?}) before any wrapped-sink call", id));
                }
                i += 1;
            }
        }
    }

    // ---- C11 / C15: counters ------------------------------------------------------------------
    let total_emits = log.iter().filter(|l| matches!(l, Log::EmitEnd { .. })).count() as u64;
    {
        let mut ok_so_far = 0u64;
        let mut calls_so_far = 0u64;
        let mut panics_so_far = 0u64;
        for l in &log {
            match l {
                Log::EmitEnd { res: Ok(_), .. } => ok_so_far += 1,
                Log::SinkCall(..) => calls_so_far += 1,
                Log::SinkPanic(_) => panics_so_far += 1,
                Log::Counters { quiescent, panics, submitted, drained, queued, .. } => {
                    // the two figures are read one after the other: comparing them is only meaningful when
                    // nobody else can emit in between (no producer threads) or at a quiescent moment
                    if *queued > total_emits || ((*quiescent || scn.prods.is_empty()) && *queued > *submitted) {
                        br(&mut out, &["C15"], "queued-out-of-range", format!("queued()={} with submitted()={} (total emits {})", queued, submitted, total_emits));
                    }
                    if *quiescent {
                        flags.push("counters-read-at-quiescence");
                        if *submitted != ok_so_far {
                            br(&mut out, &["C15"], "submitted-wrong", format!("at a quiescent moment submitted()={} but {} emits had returned Ok", submitted, ok_so_far));
                        }
                        if *drained != calls_so_far {
                            br(&mut out, &["C15"], "drained-wrong", format!("at a quiescent moment drained()={} but the wrapped sink had been handed {} metrics", drained, calls_so_far));
                        }
                        if *queued != ok_so_far.saturating_sub(calls_so_far) {
                            br(&mut out, &["C15"], "queued-wrong", format!("at a quiescent moment queued()={} but accepted-handed={}", queued, ok_so_far.saturating_sub(calls_so_far)));
                        }
                        if *panics != panics_so_far {
                            br(&mut out, &["C11"], "panic-count-wrong", format!("at a quiescent moment panics()={} but the wrapped sink had panicked {} times", panics, panics_so_far));
                        }
                    }
                }
                Log::PanicSample { panics, logged, before_latest_call } => {
                    // a metric that follows a panic is only handed over once the panic has been counted
                    if *panics < *before_latest_call || *panics > *logged {
                        br(&mut out, &["C11"], "panic-count-lags", format!("a concurrent read saw panics()={} when {} panics had happened, {} of them before the wrapped sink was handed its latest metric", panics, logged, before_latest_call));
                    }
                }
                Log::Sample { queued, submitted } => {
                    flags.push("sampled");
                    // read one after the other while others emit: each is bounded by the number of emits the
                    // program makes (a wrapped-around or over-counting figure is far above it); comparing the
                    // two with each other would assume that submitted() never goes down, which the statement
                    // does not say (counting first and taking a refused entry back is conforming)
                    if *queued > total_emits || *submitted > total_emits {
                        br(&mut out, &["C15"], "sample-out-of-range", format!("a concurrent sample saw queued()={} then submitted()={} (total emits in the program: {})", queued, submitted, total_emits));
                    }
                }
                _ => {}
            }
        }
    }
    if refused > 0 {
        flags.push("some-emit-refused");
    }
    if n_panics_scripted > 0 {
        flags.push("wrapped-sink-panicked");
    }
    if end.deadlock && gate_blocked {
        flags.push("ended-with-sink-blocked");
    }
    if live == 0 && all_ended {
        flags.push("all-handles-dropped");
    }

    // ---- outcome signature -----------------------------------------------------------------
    let sig: Vec<String> = log
        .iter()
        .filter_map(|l| match l {
            Log::EmitEnd { metric, res, .. } => Some(format!("E{}{}", metric, res.is_ok())),
            Log::SinkCall(_, m, _) => Some(format!("S{}", m)),
            Log::Counters { panics, submitted, drained, queued, .. } => Some(format!("R{}/{}/{}/{}", panics, submitted, drained, queued)),
            Log::Sample { queued, submitted } => Some(format!("s{}/{}", queued, submitted)),
            Log::PanicSample { panics, .. } => Some(format!("ps{}", panics)),
            Log::Handler(id, _) => Some(format!("H{:?}", id)),
            Log::FlushEnd { ok, .. } => Some(format!("F{}", ok)),
            _ => None,
        })
        .collect();
    let summary = format!(
        "accepted={} refused={} delivered={} sink_dropped={} live_handles={} unfinished={:?}",
        brief(accepted.iter().map(|a| a.1.clone()).collect::<Vec<_>>()),
        refused,
        brief(delivered.iter().map(|d| d.0.clone()).collect::<Vec<_>>()),
        dropped,
        live,
        end.unfinished()
    );
    out.dedup_by(|a, b| a.sig == b.sig);
    Verdict {
        breaches: out,
        outcome: hash_of(&(sig, end.deadlock, dropped)),
        flags,
        summary,
    }
}

/// Harness thread index used in `Log::Begin` for model thread `i` (main = 0, producers by order).
fn thread_index(i: usize, end: &EndState) -> usize {
    if i == 0 {
        return 0;
    }
    match end.threads[i].name.as_str() {
        "sampler" => 99,
        "prod" => 1 + end.threads[..i].iter().filter(|t| t.name == "prod").count(),
        _ => usize::MAX,
    }
}

/// Accepted metrics in the order of their successful `try_send` (from the shim's event log).
fn acceptance_order(end: &EndState, log: &[Log]) -> Vec<String> {
    let mut per_thread: std::collections::HashMap<usize, Vec<(String, bool)>> = Default::default();
    for l in log {
        if let Log::EmitEnd { thread, metric, res, .. } = l {
            per_thread.entry(*thread).or_default().push((metric.clone(), res.is_ok()));
        }
    }
    let chan = match end.events.iter().find(|e| e.kind == Some(OpKind::ChanTrySend)) {
        Some(e) => e.a,
        None => return vec![],
    };
    // model thread -> (harness thread, index of the emit in progress)
    let mut open: std::collections::HashMap<usize, (usize, usize)> = Default::default();
    let mut count: std::collections::HashMap<usize, usize> = Default::default();
    let mut order = vec![];
    for e in &end.events {
        match e.kind {
            None if e.a == MARK_EMIT_CALL => {
                let n = count.entry(e.b).or_default();
                open.insert(e.tid, (e.b, *n));
                *n += 1;
            }
            None if e.a == MARK_EMIT_RET => {
                open.remove(&e.tid);
            }
            Some(OpKind::ChanTrySend) if e.a == chan && e.b == 1 => {
                if let Some((ht, n)) = open.get(&e.tid) {
                    if let Some((m, ok)) = per_thread.get(ht).and_then(|v| v.get(*n)) {
                        if *ok {
                            order.push(m.clone());
                        }
                    }
                }
            }
            _ => {}
        }
    }
    order
}

/// (metric, position of the call mark, position of the return mark) per emit, in event order.
fn emit_spans(end: &EndState, log: &[Log]) -> Vec<(String, usize, usize)> {
    // the n-th EmitEnd of a thread corresponds to the n-th call/ret mark pair of that thread
    let mut per_thread: std::collections::HashMap<usize, Vec<String>> = Default::default();
    for l in log {
        if let Log::EmitEnd { thread, metric, .. } = l {
            per_thread.entry(*thread).or_default().push(metric.clone());
        }
    }
    let mut open: std::collections::HashMap<usize, usize> = Default::default();
    let mut count: std::collections::HashMap<usize, usize> = Default::default();
    let mut spans = vec![];
    for (pos, e) in end.events.iter().enumerate() {
        if e.kind.is_none() && e.a == MARK_EMIT_CALL {
            open.insert(e.b, pos);
        } else if e.kind.is_none() && e.a == MARK_EMIT_RET {
            if let Some(c) = open.remove(&e.b) {
                let n = count.entry(e.b).or_default();
                if let Some(m) = per_thread.get(&e.b).and_then(|v| v.get(*n)) {
                    spans.push((m.clone(), c, pos));
                }
                *n += 1;
            }
        }
    }
    spans
}

pub fn run(spec: &crate::Spec) -> Report {
    let mut rep = Report::new(&spec.raw);
    let scn = scenario(spec);
    let b = Bounds {
        preemptions: spec.opt_usize("D").or(spec.opt_usize("P")).unwrap_or(usize::MAX),
        deviations: 0,
        max_execs: spec.usize("max", 3_000_000) as u64,
        delay: spec.opt_usize("D").is_some(),
    };
    explore::check(&mut rep, &scn, b, &spec.raw);
    rep.extra("preemption_bound_completed", if b.preemptions == usize::MAX { 99 } else { b.preemptions });
    rep
}
