//! sched/stats: concurrent updates of the socket sinks' telemetry (C14), all interleavings at
//! the atomic read-modify-writes.
use crate::common::{hash_of, Report};
use crate::explore::{self, Bounds, Scenario, Verdict};
use crate::rt::{self, EndState};
use crate::sock::Rx;
use crate::wmodel::Breach;
use cadence::ext::SocketStats;
use cadence::{MetricSink, SinkStats, UdpMetricSink, UnixMetricSink};
use std::io;
use std::net::UdpSocket;
use std::os::unix::net::UnixDatagram;
use std::sync::{Arc, Mutex};

/// `mode=raw`: threads call `SocketStats::update` directly; `mode=unix`: real `UnixMetricSink`
/// towards a path nobody listens on (every send refused); `mode=udp`: real `UdpMetricSink`
/// towards a receiver the harness owns (every send accepted, 'e' ops send an oversize datagram).
#[derive(Clone)]
pub struct StatsScn {
    pub mode: String,
    /// per thread: 'o' = a send that succeeds, 'e' = a send that fails
    pub prog: Vec<String>,
    pub text: String,
}

pub fn scenario(spec: &crate::Spec) -> StatsScn {
    StatsScn {
        mode: spec.str("mode", "raw"),
        prog: spec.str("prog", "oo.oo").split('.').map(|s| s.to_string()).collect(),
        text: spec.raw.clone(),
    }
}

#[derive(Default, Clone, Debug, PartialEq)]
struct Tally {
    bytes_sent: u64,
    packets_sent: u64,
    bytes_dropped: u64,
    packets_dropped: u64,
}

impl Scenario for StatsScn {
    fn name(&self) -> String {
        self.text.clone()
    }

    fn make(&self) -> (Box<dyn FnOnce() + Send + 'static>, Box<dyn FnOnce(&EndState) -> Verdict + Send + 'static>) {
        let scn = self.clone();
        let result: Arc<Mutex<Option<(SinkStats, Tally, Vec<String>)>>> = Arc::new(Mutex::new(None));
        let res2 = result.clone();
        if scn.mode == "queue" {
            return queue_variant(scn, result);
        }
        let body = Box::new(move || {
            let tally = Arc::new(Mutex::new(Tally::default()));
            let notes = Arc::new(Mutex::new(Vec::<String>::new()));
            enum Target {
                Raw(SocketStats),
                Sink(Arc<dyn MetricSink + Send + Sync>, Option<Rx>),
            }
            let target = Arc::new(match scn.mode.as_str() {
                "unix" => Target::Sink(Arc::new(UnixMetricSink::from("/nonexistent-dir/cadence-verif.sock", UnixDatagram::unbound().unwrap())), None),
                "udp" => {
                    let rx = Rx::udp(false).unwrap();
                    let s = UdpMetricSink::from(rx.addr(), UdpSocket::bind("127.0.0.1:0").unwrap()).unwrap();
                    Target::Sink(Arc::new(s), Some(rx))
                }
                _ => Target::Raw(SocketStats::default()),
            });
            let big = "x".repeat(65508);
            let mut tids = vec![];
            for (ti, ops) in scn.prog.iter().enumerate() {
                let (target, tally, notes, ops, big) = (target.clone(), tally.clone(), notes.clone(), ops.clone(), big.clone());
                let is_udp = scn.mode == "udp";
                tids.push(rt::spawn("emitter", move || {
                    for (k, op) in ops.bytes().enumerate() {
                        let len = 3 + ti + 2 * k;
                        let ok = match &*target {
                            Target::Raw(st) => {
                                let r = if op == b'o' { Ok(len) } else { Err(io::Error::new(io::ErrorKind::Other, "refused")) };
                                st.update(r, len).is_ok()
                            }
                            Target::Sink(s, _) => {
                                let m = if op == b'e' && is_udp { big.clone() } else { "m".repeat(len) };
                                let r = s.emit(&m);
                                let ok = r.is_ok();
                                let mut t = tally.lock().unwrap();
                                if ok {
                                    t.packets_sent += 1;
                                    t.bytes_sent += m.len() as u64;
                                } else {
                                    t.packets_dropped += 1;
                                    t.bytes_dropped += m.len() as u64;
                                }
                                continue;
                            }
                        };
                        let mut t = tally.lock().unwrap();
                        if ok {
                            t.packets_sent += 1;
                            t.bytes_sent += len as u64;
                        } else {
                            t.packets_dropped += 1;
                            t.bytes_dropped += len as u64;
                        }
                        let _ = &notes;
                    }
                }));
            }
            for t in tids {
                rt::join(t);
            }
            let stats: SinkStats = match &*target {
                Target::Raw(st) => st.into(),
                Target::Sink(s, _) => s.stats(),
            };
            let t = tally.lock().unwrap().clone();
            *res2.lock().unwrap() = Some((stats, t, notes.lock().unwrap().clone()));
        });
        let judge = Box::new(move |end: &EndState| {
            let mut out: Vec<Breach> = vec![];
            for (t, p) in &end.panics {
                out.push(Breach {
                    props: vec!["C14", "C20"],
                    sig: "panic".into(),
                    what: format!("thread {} panicked: {}", t, p),
                });
            }
            let r = result.lock().unwrap().clone();
            let mut sig = 0;
            let mut summary = String::new();
            match r {
                None => out.push(Breach {
                    props: vec!["C14"],
                    sig: "stuck".into(),
                    what: format!("the program did not finish: {:?}", end.unfinished()),
                }),
                Some((s, t, _)) => {
                    let g = Tally {
                        bytes_sent: s.bytes_sent,
                        packets_sent: s.packets_sent,
                        bytes_dropped: s.bytes_dropped,
                        packets_dropped: s.packets_dropped,
                    };
                    summary = format!("stats={:?} tallies={:?}", g, t);
                    sig = hash_of(&format!("{:?}", g));
                    if g != t {
                        out.push(Breach {
                            props: vec!["C14"],
                            sig: "stats-differ-concurrent".into(),
                            what: format!("after all emitters were joined stats() reports {:?} but the sends add up to {:?}", g, t),
                        });
                    }
                }
            }
            Verdict {
                breaches: out,
                outcome: sig,
                flags: vec!["concurrent-updates"],
                summary,
            }
        });
        (body, judge)
    }
}

/// The figures read through a bounded queuing sink whose worker is held up (so that some emits are
/// refused by the queue) must be the wrapped socket sink's own figures.
fn queue_variant(
    scn: StatsScn,
    result: Arc<Mutex<Option<(SinkStats, Tally, Vec<String>)>>>,
) -> (Box<dyn FnOnce() + Send + 'static>, Box<dyn FnOnce(&EndState) -> Verdict + Send + 'static>) {
    struct Gated {
        inner: UdpMetricSink,
        gate: rt::Gate,
        sent: Arc<Mutex<Tally>>,
    }
    impl MetricSink for Gated {
        fn emit(&self, m: &str) -> io::Result<usize> {
            self.gate.pass("gate");
            let r = self.inner.emit(m);
            let mut t = self.sent.lock().unwrap();
            if r.is_ok() {
                t.packets_sent += 1;
                t.bytes_sent += m.len() as u64;
            } else {
                t.packets_dropped += 1;
                t.bytes_dropped += m.len() as u64;
            }
            r
        }
        fn stats(&self) -> SinkStats {
            self.inner.stats()
        }
    }
    let res2 = result.clone();
    let body = Box::new(move || {
        let rx = Rx::udp(false).unwrap();
        let inner = UdpMetricSink::from(rx.addr(), UdpSocket::bind("127.0.0.1:0").unwrap()).unwrap();
        let gate = rt::Gate::new(false);
        let sent = Arc::new(Mutex::new(Tally::default()));
        let q = cadence::QueuingMetricSink::with_capacity(
            Gated {
                inner,
                gate: gate.clone(),
                sent: sent.clone(),
            },
            1,
        );
        let mut refused = 0;
        for (k, op) in scn.prog[0].bytes().enumerate() {
            let m = if op == b'e' { "x".repeat(65508) } else { "m".repeat(3 + k) };
            if q.emit(&m).is_err() {
                refused += 1;
            }
        }
        gate.open();
        rt::wait_quiescent();
        let stats = q.stats();
        let t = sent.lock().unwrap().clone();
        *res2.lock().unwrap() = Some((stats, t, vec![format!("refused by the queue: {}", refused)]));
        drop(q);
        let _ = rx.drain();
    });
    let judge = Box::new(move |end: &EndState| {
        let mut out: Vec<Breach> = vec![];
        let mut summary = String::new();
        let mut sig = 0;
        let mut flags = vec![];
        match result.lock().unwrap().clone() {
            None => out.push(Breach {
                props: vec!["C14"],
                sig: "stuck".into(),
                what: format!("the program did not finish: {:?}", end.unfinished()),
            }),
            Some((s, t, notes)) => {
                let g = Tally {
                    bytes_sent: s.bytes_sent,
                    packets_sent: s.packets_sent,
                    bytes_dropped: s.bytes_dropped,
                    packets_dropped: s.packets_dropped,
                };
                summary = format!("through the queuing sink={:?} wrapped sink's sends={:?} {:?}", g, t, notes);
                sig = hash_of(&summary);
                if notes.iter().any(|n| !n.ends_with(": 0")) {
                    flags.push("queue-refused-an-emit");
                }
                if g != t {
                    out.push(Breach {
                        props: vec!["C14"],
                        sig: "stats-through-queue-differ".into(),
                        what: format!("stats() read through the queuing sink reports {:?} but the wrapped socket sink made sends adding up to {:?} ({:?})", g, t, notes),
                    });
                }
            }
        }
        Verdict {
            breaches: out,
            outcome: sig,
            flags,
            summary,
        }
    });
    (body, judge)
}

pub fn run(spec: &crate::Spec) -> Report {
    let mut rep = Report::new(&spec.raw);
    let scn = scenario(spec);
    let b = Bounds {
        preemptions: spec.opt_usize("D").or(spec.opt_usize("P")).unwrap_or(usize::MAX),
        deviations: 0,
        max_execs: spec.usize("max", 2_000_000) as u64,
        delay: spec.opt_usize("D").is_some(),
    };
    explore::check(&mut rep, &scn, b, &spec.raw);
    rep.extra("preemption_bound_completed", if b.preemptions == usize::MAX { 99 } else { b.preemptions });
    rep
}
