//! Minimal JSON value, writer and parser (no external crates are needed offline).
use std::fmt::Write as _;

#[derive(Clone, Debug, PartialEq)]
pub enum Json {
    Null,
    Bool(bool),
    Int(i128),
    Float(f64),
    Str(String),
    Arr(Vec<Json>),
    Obj(Vec<(String, Json)>),
}

impl Json {
    pub fn obj() -> Json {
        Json::Obj(vec![])
    }

    pub fn set(mut self, k: &str, v: impl Into<Json>) -> Json {
        self.put(k, v);
        self
    }

    pub fn put(&mut self, k: &str, v: impl Into<Json>) {
        if let Json::Obj(o) = self {
            let v = v.into();
            if let Some(e) = o.iter_mut().find(|e| e.0 == k) {
                e.1 = v;
            } else {
                o.push((k.to_string(), v));
            }
        }
    }

    pub fn get(&self, k: &str) -> Option<&Json> {
        match self {
            Json::Obj(o) => o.iter().find(|e| e.0 == k).map(|e| &e.1),
            _ => None,
        }
    }

    pub fn as_str(&self) -> Option<&str> {
        match self {
            Json::Str(s) => Some(s),
            _ => None,
        }
    }

    pub fn as_i128(&self) -> Option<i128> {
        match self {
            Json::Int(i) => Some(*i),
            Json::Float(f) if f.fract() == 0.0 => Some(*f as i128),
            _ => None,
        }
    }

    pub fn as_usize(&self) -> Option<usize> {
        self.as_i128().and_then(|i| usize::try_from(i).ok())
    }

    pub fn as_bool(&self) -> Option<bool> {
        match self {
            Json::Bool(b) => Some(*b),
            _ => None,
        }
    }

    pub fn as_arr(&self) -> Option<&[Json]> {
        match self {
            Json::Arr(a) => Some(a),
            _ => None,
        }
    }

    pub fn str_at(&self, k: &str) -> String {
        self.get(k).and_then(|v| v.as_str()).unwrap_or("").to_string()
    }

    pub fn usize_at(&self, k: &str) -> usize {
        self.get(k).and_then(|v| v.as_usize()).unwrap_or(0)
    }

    pub fn usizes_at(&self, k: &str) -> Vec<usize> {
        self.get(k)
            .and_then(|v| v.as_arr())
            .map(|a| a.iter().filter_map(|x| x.as_usize()).collect())
            .unwrap_or_default()
    }

    pub fn render(&self) -> String {
        let mut s = String::new();
        self.write(&mut s);
        s
    }

    fn write(&self, out: &mut String) {
        match self {
            Json::Null => out.push_str("null"),
            Json::Bool(b) => out.push_str(if *b { "true" } else { "false" }),
            Json::Int(i) => {
                let _ = write!(out, "{}", i);
            }
            Json::Float(f) => {
                if f.is_finite() {
                    let _ = write!(out, "{}", f);
                } else {
                    out.push_str("null");
                }
            }
            Json::Str(s) => write_str(out, s),
            Json::Arr(a) => {
                out.push('[');
                for (i, v) in a.iter().enumerate() {
                    if i > 0 {
                        out.push(',');
                    }
                    v.write(out);
                }
                out.push(']');
            }
            Json::Obj(o) => {
                out.push('{');
                for (i, (k, v)) in o.iter().enumerate() {
                    if i > 0 {
                        out.push(',');
                    }
                    write_str(out, k);
                    out.push(':');
                    v.write(out);
                }
                out.push('}');
            }
        }
    }

    pub fn parse(s: &str) -> Result<Json, String> {
        let mut p = Parser { b: s.as_bytes(), i: 0 };
        p.ws();
        let v = p.value()?;
        p.ws();
        if p.i != p.b.len() {
            return Err(format!("trailing data at {}", p.i));
        }
        Ok(v)
    }
}

fn write_str(out: &mut String, s: &str) {
    out.push('"');
    for c in s.chars() {
        match c {
            '"' => out.push_str("\\\""),
            '\\' => out.push_str("\\\\"),
            '\n' => out.push_str("\\n"),
            '\r' => out.push_str("\\r"),
            '\t' => out.push_str("\\t"),
            c if (c as u32) < 0x20 => {
                let _ = write!(out, "\\u{:04x}", c as u32);
            }
            c => out.push(c),
        }
    }
    out.push('"');
}

struct Parser<'a> {
    b: &'a [u8],
    i: usize,
}

impl Parser<'_> {
    fn ws(&mut self) {
        while self.i < self.b.len() && (self.b[self.i] as char).is_ascii_whitespace() {
            self.i += 1;
        }
    }

    fn eat(&mut self, lit: &str) -> bool {
        if self.b[self.i..].starts_with(lit.as_bytes()) {
            self.i += lit.len();
            true
        } else {
            false
        }
    }

    fn value(&mut self) -> Result<Json, String> {
        self.ws();
        if self.i >= self.b.len() {
            return Err("unexpected end".into());
        }
        if self.eat("null") {
            return Ok(Json::Null);
        }
        if self.eat("true") {
            return Ok(Json::Bool(true));
        }
        if self.eat("false") {
            return Ok(Json::Bool(false));
        }
        match self.b[self.i] {
            b'"' => self.string().map(Json::Str),
            b'[' => {
                self.i += 1;
                let mut a = vec![];
                self.ws();
                if self.eat("]") {
                    return Ok(Json::Arr(a));
                }
                loop {
                    a.push(self.value()?);
                    self.ws();
                    if self.eat(",") {
                        continue;
                    }
                    if self.eat("]") {
                        return Ok(Json::Arr(a));
                    }
                    return Err(format!("expected , or ] at {}", self.i));
                }
            }
            b'{' => {
                self.i += 1;
                let mut o = vec![];
                self.ws();
                if self.eat("}") {
                    return Ok(Json::Obj(o));
                }
                loop {
                    self.ws();
                    let k = self.string()?;
                    self.ws();
                    if !self.eat(":") {
                        return Err(format!("expected : at {}", self.i));
                    }
                    let v = self.value()?;
                    o.push((k, v));
                    self.ws();
                    if self.eat(",") {
                        continue;
                    }
                    if self.eat("}") {
                        return Ok(Json::Obj(o));
                    }
                    return Err(format!("expected , or }} at {}", self.i));
                }
            }
            _ => {
                let st = self.i;
                while self.i < self.b.len() && matches!(self.b[self.i], b'-' | b'+' | b'.' | b'e' | b'E' | b'0'..=b'9') {
                    self.i += 1;
                }
                let t = std::str::from_utf8(&self.b[st..self.i]).unwrap();
                if let Ok(i) = t.parse::<i128>() {
                    Ok(Json::Int(i))
                } else {
                    t.parse::<f64>().map(Json::Float).map_err(|_| format!("bad number {:?} at {}", t, st))
                }
            }
        }
    }

    fn string(&mut self) -> Result<String, String> {
        if self.b.get(self.i) != Some(&b'"') {
            return Err(format!("expected string at {}", self.i));
        }
        self.i += 1;
        let mut out: Vec<u8> = vec![];
        while self.i < self.b.len() {
            let c = self.b[self.i];
            self.i += 1;
            match c {
                b'"' => return String::from_utf8(out).map_err(|e| e.to_string()),
                b'\\' => {
                    let e = *self.b.get(self.i).ok_or("bad escape")?;
                    self.i += 1;
                    match e {
                        b'n' => out.push(b'\n'),
                        b'r' => out.push(b'\r'),
                        b't' => out.push(b'\t'),
                        b'b' => out.push(8),
                        b'f' => out.push(12),
                        b'u' => {
                            let h = std::str::from_utf8(&self.b[self.i..self.i + 4]).map_err(|e| e.to_string())?;
                            let cp = u32::from_str_radix(h, 16).map_err(|e| e.to_string())?;
                            self.i += 4;
                            let ch = char::from_u32(cp).unwrap_or('\u{fffd}');
                            let mut buf = [0u8; 4];
                            out.extend_from_slice(ch.encode_utf8(&mut buf).as_bytes());
                        }
                        other => out.push(other),
                    }
                }
                c => out.push(c),
            }
        }
        Err("unterminated string".into())
    }
}

impl From<&str> for Json {
    fn from(s: &str) -> Json {
        Json::Str(s.to_string())
    }
}
impl From<String> for Json {
    fn from(s: String) -> Json {
        Json::Str(s)
    }
}
impl From<&String> for Json {
    fn from(s: &String) -> Json {
        Json::Str(s.clone())
    }
}
impl From<bool> for Json {
    fn from(b: bool) -> Json {
        Json::Bool(b)
    }
}
impl From<f64> for Json {
    fn from(f: f64) -> Json {
        Json::Float(f)
    }
}
macro_rules! from_int {
    ($($t:ty),*) => {$(
        impl From<$t> for Json {
            fn from(i: $t) -> Json {
                Json::Int(i as i128)
            }
        }
    )*};
}
from_int!(i32, i64, u32, u64, usize, u8, i128);
impl<T: Into<Json>> From<Vec<T>> for Json {
    fn from(v: Vec<T>) -> Json {
        Json::Arr(v.into_iter().map(Into::into).collect())
    }
}
impl<T: Into<Json> + Clone> From<&[T]> for Json {
    fn from(v: &[T]) -> Json {
        Json::Arr(v.iter().cloned().map(Into::into).collect())
    }
}
impl<T: Into<Json>> From<Option<T>> for Json {
    fn from(v: Option<T>) -> Json {
        match v {
            Some(x) => x.into(),
            None => Json::Null,
        }
    }
}

/// Lossy rendering of bytes for reports.
pub fn bytes_str(b: &[u8]) -> String {
    String::from_utf8_lossy(b).into_owned()
}
