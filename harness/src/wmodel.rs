//! Reference model of a line-buffering datagram writer (properties C05, C06, C07, C19).
//!
//! The model is only a judge: it is fed what the real writer did (every attempt to write to the
//! underlying socket, in which API call it happened, and what the call returned) and says which
//! promise, if any, was broken. It never predicts a particular implementation strategy beyond
//! what the property statements demand.
use crate::json::{bytes_str, Json};

#[derive(Clone, Copy, Debug, PartialEq, Eq, Hash)]
pub struct Met {
    pub letter: u8,
    pub len: usize,
}

impl Met {
    pub fn bytes(&self) -> Vec<u8> {
        vec![self.letter; self.len]
    }
}

/// One attempt to write to the underlying writer.
#[derive(Clone, Debug, PartialEq, Eq, Hash)]
pub struct Attempt {
    pub bytes: Vec<u8>,
    pub ok: bool,
    /// id of the injected failure, if this attempt was failed by the harness
    pub fail_id: Option<usize>,
}

/// What an API call returned.
#[derive(Clone, Debug, PartialEq, Eq, Hash)]
pub enum Res {
    Ok(usize),
    /// `Some(id)`: the error is the injected failure `id`; `None`: some other error.
    Err(Option<usize>, String),
}

#[derive(Clone, Debug, PartialEq, Eq)]
pub enum Call {
    Emit(Met),
    Flush,
    Drop,
}

#[derive(Clone, Debug)]
pub struct Breach {
    pub props: Vec<&'static str>,
    pub sig: String,
    pub what: String,
}

pub struct Model {
    pub cap: usize,
    pub end: Vec<u8>,
    /// acknowledged, not yet written, fitting metrics in order
    pub pending: Vec<Met>,
    /// every metric ever emitted (for decomposing foreign writes)
    pub emitted: Vec<Met>,
    /// metrics whose emit returned an error
    pub rejected: Vec<Met>,
    /// metrics already written successfully
    pub written: Vec<Met>,
    /// tag everything with C07 as well (the history may contain injected failures)
    pub faulty: bool,
    /// successful datagrams in order: (bytes, was a bypass write)
    pub datagrams: Vec<(Vec<u8>, bool)>,
    /// the underlying writer has panicked at some point of this history
    pub inner_panicked: bool,
}

fn tags(base: &[&'static str], faulty: bool) -> Vec<&'static str> {
    let mut v: Vec<&'static str> = base.to_vec();
    if faulty && !v.contains(&"C07") {
        v.push("C07");
    }
    v
}

impl Model {
    pub fn new(cap: usize, end: &[u8], faulty: bool) -> Model {
        Model {
            cap,
            end: end.to_vec(),
            pending: vec![],
            emitted: vec![],
            rejected: vec![],
            written: vec![],
            faulty,
            datagrams: vec![],
            inner_panicked: false,
        }
    }

    pub fn line(&self, m: &Met) -> Vec<u8> {
        let mut v = m.bytes();
        v.extend_from_slice(&self.end);
        v
    }

    pub fn concat(&self, ms: &[Met]) -> Vec<u8> {
        ms.iter().flat_map(|m| self.line(m)).collect()
    }

    pub fn fill(&self) -> usize {
        self.pending.iter().map(|m| m.len + self.end.len()).sum()
    }

    pub fn need(&self, m: &Met) -> usize {
        m.len + self.end.len()
    }

    /// Can `w` be read as a sequence of complete lines of metrics that were emitted at some time?
    fn decomposes(&self, w: &[u8]) -> bool {
        let mut i = 0;
        let has_empty = self.emitted.iter().any(|m| m.len == 0);
        while i < w.len() {
            let mut matched = false;
            if has_empty && !self.end.is_empty() && w[i..].starts_with(&self.end) {
                i += self.end.len();
                continue;
            }
            for m in &self.emitted {
                if m.len == 0 {
                    continue;
                }
                let l = self.line(m);
                if w[i..].starts_with(&l) {
                    i += l.len();
                    matched = true;
                    break;
                }
            }
            if !matched {
                return false;
            }
        }
        true
    }

    fn contains_letter(w: &[u8], m: &Met) -> bool {
        m.len > 0 && w.contains(&m.letter)
    }

    fn breach(&self, out: &mut Vec<Breach>, base: &[&'static str], sig: &str, what: String) {
        out.push(Breach {
            props: tags(base, self.faulty),
            sig: sig.to_string(),
            what,
        });
    }

    /// A write that matched none of the legal shapes: decide which promise it breaks.
    fn foreign(&self, out: &mut Vec<Breach>, w: &[u8], ctx: &str) {
        if w.len() <= self.cap && !w.is_empty() && self.decomposes(w) {
            self.breach(
                out,
                &["C06"],
                "write-not-pending-prefix",
                format!(
                    "{}: write {:?} consists of complete lines but is not the in-order pending data {:?} (duplicate, lost or reordered metric)",
                    ctx,
                    bytes_str(w),
                    bytes_str(&self.concat(&self.pending))
                ),
            );
        } else if w.len() > self.cap && self.decomposes(w) {
            self.breach(
                out,
                &["C05"],
                "datagram-exceeds-capacity",
                format!("{}: write of {} bytes {:?} exceeds capacity {}", ctx, w.len(), bytes_str(w), self.cap),
            );
        } else {
            self.breach(
                out,
                &["C05"],
                "partial-or-foreign-line",
                format!(
                    "{}: write {:?} is neither whole terminated metrics nor a single oversize metric (pending {:?})",
                    ctx,
                    bytes_str(w),
                    bytes_str(&self.concat(&self.pending))
                ),
            );
        }
    }

    /// Does `w` start with the lines of the first k >= 1 pending metrics and nothing else?
    fn pending_prefix(&self, w: &[u8], list: &[Met]) -> Option<usize> {
        let mut acc: Vec<u8> = vec![];
        for (k, m) in list.iter().enumerate() {
            acc.extend(self.line(m));
            if acc == w {
                return Some(k + 1);
            }
            if acc.len() > w.len() {
                return None;
            }
        }
        None
    }

    /// Feed one API call with what it did. Returns the promises it broke.
    pub fn step(&mut self, call: &Call, attempts: &[Attempt], res: &Res) -> Vec<Breach> {
        let mut out = vec![];
        let injected_here: Vec<usize> = attempts.iter().filter_map(|a| a.fail_id).collect();
        let check_err = |this: &Model, out: &mut Vec<Breach>, ctx: &str| {
            if let Res::Err(id, text) = res {
                match id {
                    Some(i) if injected_here.contains(i) => {}
                    _ => this.breach(
                        out,
                        &["C07"],
                        "error-not-the-sockets",
                        format!("{} returned error {:?} which is not an error the socket produced during this call (injected here: {:?})", ctx, text, injected_here),
                    ),
                }
            }
        };
        // a metric whose emit was refused must never appear
        for a in attempts {
            for r in &self.rejected {
                if Self::contains_letter(&a.bytes, r) {
                    self.breach(
                        &mut out,
                        &["C07"],
                        "refused-metric-written",
                        format!("write {:?} contains metric '{}' whose emit had returned an error", bytes_str(&a.bytes), r.letter as char),
                    );
                }
            }
        }
        match call {
            Call::Flush | Call::Drop => {
                let ctx = if *call == Call::Flush { "flush" } else { "drop" };
                let mut failed = false;
                for a in attempts {
                    if self.pending.is_empty() {
                        self.breach(
                            &mut out,
                            &["C06"],
                            "write-with-nothing-buffered",
                            format!("{} wrote {:?} although nothing was buffered", ctx, bytes_str(&a.bytes)),
                        );
                        // and it may break the framing rules as well (too large, or not whole lines)
                        if a.bytes.len() > self.cap || !self.decomposes(&a.bytes) {
                            self.foreign(&mut out, &a.bytes, ctx);
                        }
                        continue;
                    }
                    match self.pending_prefix(&a.bytes, &self.pending) {
                        Some(k) if a.bytes.len() <= self.cap => {
                            if k < self.pending.len() {
                                self.breach(
                                    &mut out,
                                    &["C19"],
                                    "flush-split",
                                    format!("{} wrote only {} of {} pending metrics in one datagram although all fit", ctx, k, self.pending.len()),
                                );
                            }
                            if a.ok {
                                let gone: Vec<Met> = self.pending.drain(..k).collect();
                                self.written.extend(gone);
                                self.datagrams.push((a.bytes.clone(), false));
                            }
                        }
                        _ => self.foreign(&mut out, &a.bytes, ctx),
                    }
                    if !a.ok {
                        failed = true;
                    }
                }
                match res {
                    Res::Ok(_) => {
                        if !self.pending.is_empty() && !(*call == Call::Drop && (failed || self.inner_panicked)) {
                            self.breach(
                                &mut out,
                                &["C06"],
                                "buffered-after-flush",
                                format!("{} completed but {:?} is still buffered / was never written", ctx, bytes_str(&self.concat(&self.pending))),
                            );
                            // resynchronise so that one defect is not reported over and over
                            self.pending.clear();
                        }
                    }
                    Res::Err(..) => check_err(self, &mut out, ctx),
                }
            }
            Call::Emit(m) => {
                let m = *m;
                self.emitted.push(m);
                let need = self.need(&m);
                let room = self.cap.saturating_sub(self.fill());
                let oversize = need > self.cap;
                let ctx = format!("emit('{}' x{})", m.letter as char, m.len);
                if !attempts.is_empty() && need < room {
                    self.breach(
                        &mut out,
                        &["C19"],
                        "early-write",
                        format!("{}: wrote to the socket although the metric ({} bytes with terminator) fits with room to spare ({} free)", ctx, need, room),
                    );
                }
                let mut m_written = false;
                for a in attempts {
                    // (ii) oversize metric alone, without terminator
                    if oversize && !m_written && a.bytes == m.bytes() {
                        if a.ok {
                            m_written = true;
                            self.written.push(m);
                            self.datagrams.push((a.bytes.clone(), true));
                        }
                        continue;
                    }
                    // (i) a prefix of what is pending
                    if !self.pending.is_empty() {
                        if let Some(k) = self.pending_prefix(&a.bytes, &self.pending) {
                            if a.bytes.len() <= self.cap {
                                if k < self.pending.len() {
                                    self.breach(
                                        &mut out,
                                        &["C19"],
                                        "flush-split",
                                        format!("{}: wrote only {} of {} pending metrics in one datagram although all fit", ctx, k, self.pending.len()),
                                    );
                                }
                                if a.ok {
                                    let gone: Vec<Met> = self.pending.drain(..k).collect();
                                    self.written.extend(gone);
                                    self.datagrams.push((a.bytes.clone(), false));
                                }
                                continue;
                            }
                        }
                    }
                    // (i') pending plus the metric being emitted (it exactly fills the buffer)
                    if !oversize && !m_written {
                        let mut with = self.pending.clone();
                        with.push(m);
                        if a.bytes == self.concat(&with) && a.bytes.len() <= self.cap {
                            if a.ok {
                                self.written.extend(with);
                                self.pending.clear();
                                m_written = true;
                                self.datagrams.push((a.bytes.clone(), false));
                            }
                            continue;
                        }
                    }
                    self.foreign(&mut out, &a.bytes, &ctx);
                }
                match res {
                    Res::Ok(n) => {
                        if *n != m.len {
                            self.breach(
                                &mut out,
                                &["C06"],
                                "wrong-byte-count",
                                format!("{} returned Ok({}) instead of the metric's byte length {}", ctx, n, m.len),
                            );
                        }
                        if oversize {
                            if !m_written {
                                self.breach(
                                    &mut out,
                                    &["C06"],
                                    "oversize-not-written",
                                    format!("{} returned Ok but the oversize metric was not written during its own emit", ctx),
                                );
                            }
                        } else if !m_written {
                            self.pending.push(m);
                        }
                    }
                    Res::Err(..) => {
                        check_err(self, &mut out, &ctx);
                        if m_written {
                            self.breach(
                                &mut out,
                                &["C07"],
                                "refused-metric-written",
                                format!("{} returned an error although its metric was written", ctx),
                            );
                        }
                        self.rejected.push(m);
                    }
                }
            }
        }
        out
    }

    /// Independent oracle for C19 on failure-free histories: the non-bypass datagrams must be
    /// exactly the in-order greedy packing of the fitting metrics between forced boundaries.
    pub fn greedy_pack(cap: usize, end_len: usize, groups: &[Vec<usize>]) -> Vec<Vec<usize>> {
        // groups: metric lengths of fitting metrics between two forced boundaries (flush / drop)
        let mut out = vec![];
        for g in groups {
            let mut cur: Vec<usize> = vec![];
            let mut fill = 0usize;
            for &l in g {
                let need = l + end_len;
                if fill + need > cap && !cur.is_empty() {
                    out.push(std::mem::take(&mut cur));
                    fill = 0;
                }
                cur.push(l);
                fill += need;
            }
            if !cur.is_empty() {
                out.push(cur);
            }
        }
        out
    }
}

pub fn attempts_json(a: &[Attempt]) -> Json {
    Json::Arr(
        a.iter()
            .map(|x| Json::obj().set("bytes", bytes_str(&x.bytes)).set("ok", x.ok))
            .collect(),
    )
}
