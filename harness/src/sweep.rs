//! seqx/sweep: hostile inputs and tiny capacities through the public API (C20). Runs in a child
//! process so that an abort (double panic, allocation failure, stack overflow) is observed as a
//! violation rather than killing the harness.
use crate::api::{self, call, ClientCfg, Form, Step, Val, ROWS, VT};
use crate::common::{Report, Violation};
use crate::json::Json;
use crate::reffmt;
use cadence::ext::MultiLineWriter;
use cadence::{BufferedSpyMetricSink, BufferedUdpMetricSink, BufferedUnixMetricSink, MetricSink, NopMetricSink, QueuingMetricSink, QueuingMetricSinkBuilder, SpyMetricSink, StatsdClient, UdpMetricSink, UnixMetricSink};
use cadence::prelude::*;
use std::io::Write;
use std::net::UdpSocket;
use std::os::unix::net::UnixDatagram;
use std::panic::{self, AssertUnwindSafe};
use std::time::Duration;

fn bad(rep: &mut Report, sig: &str, what: String) {
    rep.violation(Violation {
        props: vec!["C20"],
        sig: format!("sweep/{}", sig),
        what: what.clone(),
        replay: Json::obj().set("engine", "sweep").set("what", what),
    });
}

/// Run one case; a panic is a violation.
fn guarded(rep: &mut Report, name: &str, f: impl FnOnce(&mut Report)) {
    eprintln!("CASE {}", name);
    rep.evaluations += 1;
    rep.distinct(&name.to_string());
    let r = panic::catch_unwind(AssertUnwindSafe(|| f(rep)));
    if let Err(p) = r {
        bad(rep, "panic", format!("{} panicked: {}", name, crate::common::payload_str(&*p)));
    }
}

fn short(s: &str) -> String {
    if s.len() > 24 {
        format!("{}..({} bytes)", s.chars().take(12).collect::<String>(), s.len())
    } else {
        format!("{:?}", s)
    }
}

fn one_call(rep: &mut Report, cfg: &ClientCfg, rowi: usize, form: Form, key: &str, val: &Val, steps: &[Step]) {
    let rig = api::build(cfg);
    let row = &ROWS[rowi];
    let res = call(&rig.client, row, form, key, val, steps);
    let emits = rig.sink.0.lock().unwrap().emits.clone();
    match reffmt::values(row, val) {
        Err(()) => {
            if !emits.is_empty() {
                bad(rep, "invalid-sent", format!("{} with invalid value {:?} was sent: {:?}", row.name, val, emits.iter().map(|e| short(e)).collect::<Vec<_>>()));
            }
            match (&res, form) {
                (Some(Err(f)), _) if f.kind == cadence::ErrorKind::InvalidInput => {}
                (None, Form::Send) => {
                    if rig.handler.lock().unwrap().len() != 1 {
                        bad(rep, "invalid-not-reported", format!("{} with invalid value: handler not invoked exactly once", row.name));
                    }
                }
                (other, _) => bad(rep, "invalid-not-reported", format!("{} with invalid value {:?} returned {:?}", row.name, val, other.as_ref().map(|r| r.as_ref().map(|s| short(s))))),
            }
        }
        Ok(vals) => {
            if emits.len() != 1 {
                bad(rep, "valid-not-sent", format!("{} (prefix {}, key {}) was not sent exactly once: {} emits, result {:?}", row.name, short(&cfg.prefix), short(key), emits.len(), res.as_ref().map(|r| r.as_ref().map(|s| short(s)))));
                return;
            }
            let sec = reffmt::sections(cfg, steps);
            let pieces = reffmt::expected(cfg, row, key, &vals, &sec);
            if let Err(why) = reffmt::matches(&emits[0], &pieces) {
                bad(rep, "wrong-line", format!("{}: emitted {} : {}", row.name, short(&emits[0]), short(&why)));
            }
        }
    }
}

pub fn run_child(spec: &crate::Spec) -> Report {
    let mut rep = Report::new(&spec.raw);
    let part = spec.str("part", "strings");
    let forms = [Form::Plain, Form::TrySend, Form::Send];
    match part.as_str() {
        "strings" => {
            let big = "x".repeat(1 << 20);
            let strings: Vec<&str> = vec!["", &big, "ключ😀", ":|#,@\n", "\0", " ", "....", "a\r\nb"];
            for p in &strings {
                for k in &strings {
                    for t in [None, Some(0usize), Some(3), Some(1)] {
                        for (rowi, val) in [(0usize, Val::I64(-1)), (9, Val::F64(0.5)), (15, Val::VF64(vec![1.0, 2.0])), (22, Val::None)] {
                            for form in forms {
                                let steps: Vec<Step> = match t {
                                    Some(i) if form != Form::Plain => vec![Step::Tag(strings[i].to_string(), strings[(i + 1) % strings.len()].to_string()), Step::TagValue(strings[i].to_string()), Step::Container(strings[i].to_string())],
                                    _ => vec![],
                                };
                                let cfg = ClientCfg {
                                    prefix: p.to_string(),
                                    tags: if t == Some(3) { vec![(Some(":".into()), "".into()), (None, "\n".into())] } else { vec![] },
                                    container: if t == Some(0) { Some("".into()) } else { None },
                                };
                                let name = format!("strings prefix={} key={} tags={:?} row={} form={:?}", short(p), short(k), t, rowi, form);
                                guarded(&mut rep, &name, |rep| one_call(rep, &cfg, rowi, form, k, &val, &steps));
                            }
                        }
                    }
                }
            }
            rep.sample(Json::obj().set("strings", strings.iter().map(|s| short(s)).collect::<Vec<_>>()));
        }
        "builders" => {
            // every sequence of up to three builder calls (repeats included: a section set twice, a
            // longer value replaced by a shorter or empty one) on clients with and without defaults
            let alpha: Vec<Step> = vec![
                Step::Container("x".into()),
                Step::Container("".into()),
                Step::Container("a-longer-container-id".into()),
                Step::Timestamp(0),
                Step::Timestamp(u64::MAX),
                Step::Rate(0.0),
                Step::Rate(1.0),
                Step::Tag("".into(), "".into()),
                Step::TagValue("a-fairly-long-tag-value-to-grow-the-line".into()),
            ];
            let seqs = crate::fmt::sequences(&alpha, 3);
            for (di, (dtags, dcont)) in [
                (vec![], None),
                (vec![], Some("".to_string())),
                (vec![(Some("dk".to_string()), "dv".to_string())], Some("default-container-id".to_string())),
            ]
            .into_iter()
            .enumerate()
            {
                let cfg = ClientCfg {
                    prefix: "p".into(),
                    tags: dtags,
                    container: dcont,
                };
                for (rowi, val) in [(0usize, Val::I64(-1)), (5, Val::Dur(Duration::from_millis(3))), (15, Val::VF64(vec![1.0, 2.0])), (21, Val::I64(7))] {
                    for form in [Form::TrySend, Form::Send] {
                        for steps in &seqs {
                            let name = format!("builders defaults#{} row={} form={:?} calls={:?}", di, rowi, form, steps);
                            guarded(&mut rep, &name, |rep| one_call(rep, &cfg, rowi, form, "k", &val, steps));
                        }
                    }
                }
            }
            rep.sample(Json::obj().set("builder_call_alphabet", format!("{:?}", alpha)).set("max_calls", 3));
        }
        "numbers" => {
            let cfg = ClientCfg { prefix: "p".into(), ..Default::default() };
            let floats = [f64::NAN, f64::INFINITY, f64::NEG_INFINITY, 0.0, -0.0, 5e-324, -5e-324, f64::MAX, f64::MIN, f64::MIN_POSITIVE, 1e300, -1e-300, 2.0, -1.0];
            for f in floats {
                for (rowi, row) in ROWS.iter().enumerate() {
                    let val = match row.vt {
                        VT::F64 => Val::F64(f),
                        VT::VF64 => Val::VF64(vec![1.0, f, f]),
                        _ => continue,
                    };
                    for form in forms {
                        let name = format!("numbers float={:e} row={} form={:?}", f, row.name, form);
                        guarded(&mut rep, &name, |rep| one_call(rep, &cfg, rowi, form, "k", &val, &[]));
                    }
                }
                // as a sampling rate on every kind
                for rowi in [0usize, 4, 8, 10, 11, 17, 21] {
                    let val = crate::fmt::values_for(ROWS[rowi].vt, false)[1].clone();
                    let name = format!("numbers rate={:e} row={}", f, ROWS[rowi].name);
                    guarded(&mut rep, &name, |rep| one_call(rep, &cfg, rowi, Form::TrySend, "k", &val, &[Step::Rate(f), Step::Timestamp(u64::MAX)]));
                }
            }
            for (rowi, row) in ROWS.iter().enumerate() {
                let vals: Vec<Val> = match row.vt {
                    VT::I64 => vec![Val::I64(i64::MIN), Val::I64(i64::MAX), Val::I64(0), Val::I64(-1)],
                    VT::I32 => vec![Val::I32(i32::MIN), Val::I32(i32::MAX), Val::I32(0)],
                    VT::U64 => vec![Val::U64(u64::MAX), Val::U64(0)],
                    VT::U32 => vec![Val::U32(u32::MAX), Val::U32(0)],
                    VT::Dur => vec![Val::Dur(Duration::MAX), Val::Dur(Duration::ZERO), Val::Dur(Duration::new(u64::MAX, 0)), Val::Dur(Duration::new(18_446_744_073_709_551, 616_000_000)), Val::Dur(Duration::new(18_446_744_073_709_551, 999_999_999)), Val::Dur(Duration::new(18_446_744_073, 709_551_616))],
                    VT::VDur => vec![Val::VDur(vec![Duration::MAX]), Val::VDur(vec![Duration::ZERO, Duration::MAX]), Val::VDur(vec![Duration::new(18_446_744_073_709_551, 800_000_000), Duration::ZERO])],
                    VT::VU64 => vec![Val::VU64(vec![u64::MAX; 5])],
                    _ => vec![],
                };
                for val in vals {
                    for form in forms {
                        let name = format!("numbers value={:?} row={} form={:?}", val, row.name, form);
                        guarded(&mut rep, &name, |rep| one_call(rep, &cfg, rowi, form, "k", &val, &[]));
                    }
                }
            }
            rep.sample(Json::obj().set("floats", floats.iter().map(|f| format!("{:e}", f)).collect::<Vec<_>>()));
        }
        "lists" => {
            let cfg = ClientCfg { prefix: "p".into(), ..Default::default() };
            for (rowi, row) in ROWS.iter().enumerate() {
                for n in [0usize, 1, 1_000_000] {
                    let val = match row.vt {
                        VT::VU64 => Val::VU64(vec![u64::MAX; n]),
                        VT::VF64 => Val::VF64(vec![-1.5e300; n]),
                        VT::VDur => Val::VDur(vec![Duration::from_nanos(7); n]),
                        _ => continue,
                    };
                    for form in [Form::Plain, Form::Send] {
                        let name = format!("lists len={} row={} form={:?}", n, row.name, form);
                        guarded(&mut rep, &name, |rep| one_call(rep, &cfg, rowi, form, "k", &val, &[]));
                    }
                }
            }
            rep.sample(Json::obj().set("list_lengths", vec![0, 1, 1_000_000]));
        }
        "buffers" => {
            // the line-buffering writer and every buffered sink with zero and tiny capacities
            for cap in [0usize, 1, 2, 3] {
                for end in ["\n", "", "\r\n", "abcdef"] {
                    for a in 0..=4usize {
                        for b in 0..=4usize {
                            let name = format!("buffers MultiLineWriter cap={} end={:?} writes {} {} flush write drop", cap, end, a, b);
                            guarded(&mut rep, &name, |_| {
                                let mut w = MultiLineWriter::with_ending(Vec::<u8>::new(), cap, end);
                                let _ = w.write(&vec![b'a'; a]);
                                let _ = w.write(&vec![b'b'; b]);
                                let _ = w.flush();
                                let _ = w.write(&vec![b'c'; a]);
                                let _ = w.write_all(&vec![b'd'; b]);
                                let _ = format!("{:?}", w);
                            });
                        }
                    }
                }
                for which in ["spy", "udp", "unix"] {
                    for via_client in [false, true] {
                        let name = format!("buffers sink={} cap={} via_client={}", which, cap, via_client);
                        guarded(&mut rep, &name, |rep| {
                            let rx = crate::sock::Rx::unix("sweep");
                            let udp_rx = crate::sock::Rx::udp(false).unwrap();
                            let (sink, spy_rx): (Box<dyn MetricSink + Send + Sync + std::panic::RefUnwindSafe>, _) = match which {
                                "spy" => {
                                    let (r, s) = BufferedSpyMetricSink::with_capacity(None, Some(cap));
                                    (Box::new(s), Some(r))
                                }
                                "udp" => (Box::new(BufferedUdpMetricSink::with_capacity(udp_rx.addr(), UdpSocket::bind("127.0.0.1:0").unwrap(), cap).unwrap()), None),
                                _ => (Box::new(BufferedUnixMetricSink::with_capacity(rx.path(), UnixDatagram::unbound().unwrap(), cap)), None),
                            };
                            if via_client {
                                struct B(Box<dyn MetricSink + Send + Sync + std::panic::RefUnwindSafe>);
                                impl MetricSink for B {
                                    fn emit(&self, m: &str) -> std::io::Result<usize> {
                                        self.0.emit(m)
                                    }
                                    fn flush(&self) -> std::io::Result<()> {
                                        self.0.flush()
                                    }
                                }
                                let c = StatsdClient::from_sink("", B(sink));
                                for k in ["", "a", "ab"] {
                                    if c.count(k, 1).is_err() {
                                        bad(rep, "tiny-buffer-refused", format!("count({:?}) through a {} sink with buffer capacity {} failed", k, which, cap));
                                    }
                                }
                                if c.flush().is_err() {
                                    bad(rep, "tiny-buffer-refused", format!("flush through a {} sink with buffer capacity {} failed", which, cap));
                                }
                            } else {
                                for m in ["", "a", "ab", "abc"] {
                                    match sink.emit(m) {
                                        Ok(n) if n == m.len() => {}
                                        other => bad(rep, "tiny-buffer-refused", format!("emit({:?}) into a {} sink with buffer capacity {} returned {:?}", m, which, cap, other)),
                                    }
                                }
                                let _ = sink.flush();
                                let _ = sink.emit("z");
                                let _ = sink.stats();
                                drop(sink);
                            }
                            let _ = spy_rx;
                        });
                    }
                }
            }
            // very long metrics into every socket sink: an I/O error is fine, a panic is not. Contents:
            // ASCII, and 2-, 3- and 4-byte characters after 0..3 ASCII bytes, so that every byte offset
            // falls inside a character for some content (code that cuts a metric at a byte index)
            let contents = |big: usize| -> Vec<String> {
                let mut v = vec!["k".repeat(big)];
                for ch in ["é", "€", "😀"] {
                    for lead in 0..4usize {
                        let mut m = "k".repeat(lead);
                        while m.len() + ch.len() <= big {
                            m.push_str(ch);
                        }
                        while m.len() < big {
                            m.push('z');
                        }
                        v.push(m);
                    }
                }
                v
            };
            for big in [65507usize, 65508, 65527, 65528, 70000, 200_000] {
                for cap in [0usize, 8, 512, 100_000] {
                    for which in ["spy", "udp", "unix", "udp-unbuffered", "unix-unbuffered", "udp6-unbuffered"] {
                        if which.ends_with("unbuffered") && cap != 0 {
                            continue;
                        }
                        let name = format!("buffers sink={} cap={} metrics of {} bytes, ASCII and multi-byte contents", which, cap, big);
                        guarded(&mut rep, &name, |_| {
                            let rx = crate::sock::Rx::unix("sweepbig");
                            let udp_rx = crate::sock::Rx::udp(false).unwrap();
                            let udp6_rx = crate::sock::Rx::udp(true);
                            let sink: Box<dyn MetricSink> = match which {
                                "spy" => Box::new(BufferedSpyMetricSink::with_capacity(None, Some(cap)).1),
                                "udp" => Box::new(BufferedUdpMetricSink::with_capacity(udp_rx.addr(), UdpSocket::bind("127.0.0.1:0").unwrap(), cap).unwrap()),
                                "unix" => Box::new(BufferedUnixMetricSink::with_capacity(rx.path(), UnixDatagram::unbound().unwrap(), cap)),
                                "udp-unbuffered" => Box::new(UdpMetricSink::from(udp_rx.addr(), UdpSocket::bind("127.0.0.1:0").unwrap()).unwrap()),
                                "udp6-unbuffered" => match &udp6_rx {
                                    Some(r6) => Box::new(UdpMetricSink::from(r6.addr(), UdpSocket::bind("[::1]:0").unwrap()).unwrap()),
                                    None => return,
                                },
                                _ => Box::new(UnixMetricSink::from(rx.path(), UnixDatagram::unbound().unwrap())),
                            };
                            for m in contents(big) {
                                let _ = sink.emit("a:1|c");
                                let _ = sink.emit(&m);
                                let _ = sink.emit("b:1|c");
                                let _ = sink.flush();
                                let _ = sink.emit(&m);
                                let _ = sink.flush();
                                let _ = rx.discard_all();
                                let _ = udp_rx.discard_all();
                                if let Some(r6) = &udp6_rx {
                                    let _ = r6.discard_all();
                                }
                            }
                            drop(sink);
                        });
                    }
                }
            }
            rep.sample(Json::obj().set("capacities", vec![0, 1, 2, 3]));
        }
        "queues" => {
            for q in [0usize, 1, 2] {
                guarded(&mut rep, &format!("queues SpyMetricSink::with_capacity({})", q), |_| {
                    let (rx, s) = SpyMetricSink::with_capacity(q);
                    for m in ["a", "", "ccc"] {
                        let _ = s.emit(m);
                    }
                    let _ = rx.try_recv();
                    let _ = s.emit("d");
                    let _ = s.flush();
                });
                guarded(&mut rep, &format!("queues BufferedSpyMetricSink queue={} buffer 8", q), |_| {
                    let (rx, s) = BufferedSpyMetricSink::with_capacity(Some(q), Some(8));
                    for m in ["aaaa", "bbbb", "", "cccccccccc"] {
                        let _ = s.emit(m);
                    }
                    let _ = s.flush();
                    let _ = rx.try_recv();
                    let _ = s.flush();
                });
                for with_handler in [false, true] {
                    guarded(&mut rep, &format!("queues QueuingMetricSink capacity={} handler={}", q, with_handler), |rep| {
                        let mut b = QueuingMetricSinkBuilder::new().with_capacity(q);
                        if with_handler {
                            b = b.with_error_handler(|_e| {});
                        }
                        let s = b.build(NopMetricSink);
                        for m in ["a", "", "ccc"] {
                            let _ = s.emit(m);
                        }
                        let _ = s.flush();
                        let _ = (s.stats(), s.queued(), s.submitted(), s.drained());
                        std::thread::sleep(Duration::from_millis(5));
                        if s.panics() != 0 {
                            bad(rep, "worker-panicked", format!("the worker of a queuing sink with capacity {} panicked", q));
                        }
                        let s2 = s.clone();
                        drop(s);
                        let _ = s2.emit("late");
                        drop(s2);
                        let c = QueuingMetricSink::with_capacity(NopMetricSink, q);
                        let _ = format!("{:?}", c);
                    });
                }
            }
            rep.sample(Json::obj().set("queue_capacities", vec![0, 1, 2]));
        }
        _ => {
            // unresolvable addresses and odd paths are errors, never panics
            for a in ["asdf", "", "1.2.3.4", "[::1", "127.0.0.1:99999", ":", "localhost:", "\0:1"] {
                guarded(&mut rep, &format!("addresses udp {:?}", a), |rep| {
                    let r = UdpMetricSink::from(a, UdpSocket::bind("127.0.0.1:0").unwrap());
                    let r2 = BufferedUdpMetricSink::with_capacity(a, UdpSocket::bind("127.0.0.1:0").unwrap(), 8);
                    if r.is_ok() || r2.is_ok() {
                        bad(rep, "bad-address-accepted", format!("address {:?} accepted", a));
                    }
                });
            }
            let long = "/".to_string() + &"p".repeat(300);
            for p in ["", "/nonexistent-dir/x.sock", long.as_str(), "/tmp/with\0nul", "/"] {
                guarded(&mut rep, &format!("addresses unix path {}", short(p)), |rep| {
                    let s = UnixMetricSink::from(p, UnixDatagram::unbound().unwrap());
                    if s.emit("a:1|c").is_ok() {
                        bad(rep, "odd-path-accepted", format!("emit to odd path {} succeeded", short(p)));
                    }
                    let b = BufferedUnixMetricSink::with_capacity(p, UnixDatagram::unbound().unwrap(), 4);
                    let _ = b.emit("a:1|c");
                    let _ = b.emit("b");
                    let _ = b.flush();
                    let st = s.stats();
                    if st.packets_dropped != 1 {
                        bad(rep, "stats", format!("refused send to {} not counted: {:?}", short(p), st));
                    }
                });
            }
            rep.sample(Json::obj().set("addresses", "bad UDP host strings and odd Unix paths"));
        }
    }
    rep
}
