//! seqx/sock: the socket sinks against real loopback UDP and Unix datagram sockets
//! (C13, C14; binding runs for C05/C06/C07 through the real sinks).
use crate::common::{letter, Report, Violation};
use crate::fmt::sequences;
use crate::json::{bytes_str, Json};
use crate::wmodel::{Attempt, Call, Met, Model, Res};
use cadence::{BufferedUdpMetricSink, BufferedUnixMetricSink, MetricSink, QueuingMetricSink, SinkStats, UdpMetricSink, UnixMetricSink};
use std::net::{SocketAddr, UdpSocket};
use std::os::unix::net::UnixDatagram;
use std::panic::{self, AssertUnwindSafe};
use std::path::PathBuf;
use std::sync::atomic::{AtomicUsize, Ordering};
use std::time::Duration;

const MARK: [u8; 4] = [0xff, 0xfe, 0xfd, 0xfc];
static SEQ: AtomicUsize = AtomicUsize::new(0);

fn tmp_path(tag: &str) -> PathBuf {
    let dir = std::env::var("CARGO_TARGET_DIR").map(PathBuf::from).unwrap_or_else(|_| PathBuf::from("/verif/.target")).join("socks");
    let _ = std::fs::create_dir_all(&dir);
    dir.join(format!("{}-{}-{}.sock", std::process::id(), tag, SEQ.fetch_add(1, Ordering::SeqCst)))
}

/// A receiver the harness owns. `drain` returns every datagram that arrived before a marker the
/// harness sends itself (loopback and Unix datagram delivery is FIFO for a pinned process).
pub enum Rx {
    Udp(UdpSocket, UdpSocket),
    Unix(UnixDatagram, UnixDatagram, PathBuf),
}

impl Rx {
    pub fn udp(v6: bool) -> Option<Rx> {
        let host = if v6 { "[::1]:0" } else { "127.0.0.1:0" };
        let rx = UdpSocket::bind(host).ok()?;
        rx.set_read_timeout(Some(Duration::from_secs(15))).ok()?;
        let tx = UdpSocket::bind(host).ok()?;
        Some(Rx::Udp(rx, tx))
    }
    pub fn unix(tag: &str) -> Rx {
        let p = tmp_path(tag);
        let _ = std::fs::remove_file(&p);
        let rx = UnixDatagram::bind(&p).expect("bind unix receiver");
        rx.set_read_timeout(Some(Duration::from_secs(15))).unwrap();
        Rx::Unix(rx, UnixDatagram::unbound().unwrap(), p)
    }
    pub fn addr(&self) -> SocketAddr {
        match self {
            Rx::Udp(rx, _) => rx.local_addr().unwrap(),
            _ => panic!("not udp"),
        }
    }
    pub fn path(&self) -> PathBuf {
        match self {
            Rx::Unix(_, _, p) => p.clone(),
            _ => panic!("not unix"),
        }
    }
    /// Read and throw away whatever is queued, without blocking (used after the queue was filled
    /// with junk on purpose: the marker of `drain` could not even be sent then).
    pub fn discard_all(&self) -> Vec<Vec<u8>> {
        let mut kept = vec![];
        let mut buf = vec![0u8; 300_000];
        match self {
            Rx::Udp(rx, _) => {
                let _ = rx.set_nonblocking(true);
                while let Ok(n) = rx.recv(&mut buf) {
                    if !buf[..n].starts_with(&MARK) {
                        kept.push(buf[..n].to_vec());
                    }
                }
                let _ = rx.set_nonblocking(false);
            }
            Rx::Unix(rx, _, _) => {
                let _ = rx.set_nonblocking(true);
                while let Ok(n) = rx.recv(&mut buf) {
                    if !buf[..n].starts_with(&MARK) {
                        kept.push(buf[..n].to_vec());
                    }
                }
                let _ = rx.set_nonblocking(false);
            }
        }
        kept
    }

    pub fn drain(&self) -> Result<Vec<Vec<u8>>, String> {
        let n = SEQ.fetch_add(1, Ordering::SeqCst);
        let mut marker = MARK.to_vec();
        marker.extend_from_slice(&n.to_le_bytes());
        match self {
            Rx::Udp(rx, tx) => tx.send_to(&marker, rx.local_addr().unwrap()).map(|_| ()).map_err(|e| e.to_string())?,
            Rx::Unix(_, tx, p) => tx.send_to(&marker, p).map(|_| ()).map_err(|e| e.to_string())?,
        }
        let mut out = vec![];
        let mut buf = vec![0u8; 300_000];
        loop {
            let r = match self {
                Rx::Udp(rx, _) => rx.recv(&mut buf),
                Rx::Unix(rx, _, _) => rx.recv(&mut buf),
            };
            match r {
                Ok(n) => {
                    if buf[..n] == marker[..] {
                        return Ok(out);
                    }
                    if buf[..n].starts_with(&MARK) {
                        continue; // stale marker
                    }
                    out.push(buf[..n].to_vec());
                }
                Err(e) => return Err(format!("receiver timed out waiting for its own marker: {}", e)),
            }
        }
    }
}

impl Drop for Rx {
    fn drop(&mut self) {
        if let Rx::Unix(_, _, p) = self {
            let _ = std::fs::remove_file(p);
        }
    }
}

fn bad(rep: &mut Report, props: &[&'static str], sig: &str, what: String) {
    rep.violation(Violation {
        props: props.to_vec(),
        sig: format!("sock/{}", sig),
        what: what.clone(),
        replay: Json::obj().set("engine", "sock").set("what", what),
    });
}

fn metric_of(len: usize, charset: usize, i: usize) -> String {
    // charset 0: ASCII letter; 1: 2-byte, 2: 3-byte, 3: 4-byte scalars (padded with ASCII to the byte length)
    let unit = match charset {
        1 => "é",
        2 => "€",
        3 => "😀",
        _ => "",
    };
    if unit.is_empty() {
        return (letter(i) as char).to_string().repeat(len);
    }
    let mut s = String::new();
    while s.len() + unit.len() <= len {
        s.push_str(unit);
    }
    while s.len() < len {
        s.push(letter(i) as char);
    }
    s
}

#[derive(Default, Clone, Debug, PartialEq)]
struct Tally {
    bytes_sent: u64,
    packets_sent: u64,
    bytes_dropped: u64,
    packets_dropped: u64,
}

fn check_stats(rep: &mut Report, ctx: &str, got: &SinkStats, want: &Tally) {
    let g = Tally {
        bytes_sent: got.bytes_sent,
        packets_sent: got.packets_sent,
        bytes_dropped: got.bytes_dropped,
        packets_dropped: got.packets_dropped,
    };
    if g != *want {
        bad(rep, &["C14"], "stats-differ", format!("{}: stats() reports {:?} but the sends observed add up to {:?}", ctx, g, want));
    }
}

/// C13 + C14 for the unbuffered sinks: every length x charset x blocking mode x address form.
pub fn unbuffered(spec: &crate::Spec) -> Report {
    let mut rep = Report::new(&spec.raw);
    let lens = [0usize, 1, 7, 8, 511, 512, 513, 1432, 8192, 65506, 65507, 65508, 65527, 65528, 70000];
    let which = spec.str("sink", "udp");
    for nonblocking in [false, true] {
        for form in 0..3 {
            let (rx, decoy) = match which.as_str() {
                "udp" => (Rx::udp(false).unwrap(), Rx::udp(false).unwrap()),
                "udp6" => match (Rx::udp(true), Rx::udp(true)) {
                    (Some(a), Some(b)) => (a, b),
                    _ => {
                        rep.flag("ipv6-loopback-unavailable");
                        rep.evaluations += 1;
                        return rep;
                    }
                },
                _ => (Rx::unix("rx"), Rx::unix("decoy")),
            };
            let sink: Box<dyn MetricSink> = match which.as_str() {
                "udp" | "udp6" => {
                    let s = UdpSocket::bind(if which == "udp6" { "[::1]:0" } else { "0.0.0.0:0" }).unwrap();
                    s.set_nonblocking(nonblocking).unwrap();
                    let a = rx.addr();
                    let r = match form {
                        0 => UdpMetricSink::from(a, s),
                        1 => UdpMetricSink::from((a.ip().to_string().as_str(), a.port()), s),
                        _ => UdpMetricSink::from(a.to_string().as_str(), s),
                    };
                    match r {
                        Ok(s) => Box::new(s),
                        Err(e) => {
                            bad(&mut rep, &["C13"], "constructor-failed", format!("UdpMetricSink::from({}) failed: {}", a, e));
                            continue;
                        }
                    }
                }
                _ => {
                    if form > 0 {
                        continue;
                    }
                    let s = UnixDatagram::unbound().unwrap();
                    s.set_nonblocking(nonblocking).unwrap();
                    Box::new(UnixMetricSink::from(rx.path(), s))
                }
            };
            let mut tally = Tally::default();
            let mut i = 0;
            for len in lens {
                for charset in 0..4 {
                    if charset > 0 && len < 4 {
                        continue;
                    }
                    let m = metric_of(len, charset, i);
                    i += 1;
                    rep.evaluations += 1;
                    rep.distinct(&(which.clone(), nonblocking, form, len, charset));
                    let res = panic::catch_unwind(AssertUnwindSafe(|| sink.emit(&m)));
                    let res = match res {
                        Ok(r) => r,
                        Err(p) => {
                            bad(&mut rep, &["C13", "C20"], "panic", format!("emit of {} bytes panicked: {}", len, crate::common::payload_str(&*p)));
                            continue;
                        }
                    };
                    let got = match rx.drain() {
                        Ok(g) => g,
                        Err(e) => {
                            rep.errors.push(e);
                            return rep;
                        }
                    };
                    let stray = decoy.drain().unwrap_or_default();
                    if !stray.is_empty() {
                        bad(&mut rep, &["C13"], "wrong-destination", format!("{} datagrams arrived at a receiver the sink was not given", stray.len()));
                    }
                    let ctx = format!("{} sink (nonblocking={}, address form {}) emit of {} bytes (charset {})", which, nonblocking, form, len, charset);
                    match res {
                        Ok(n) => {
                            rep.flag("datagram-accepted");
                            tally.packets_sent += 1;
                            tally.bytes_sent += m.len() as u64;
                            if n != m.len() {
                                bad(&mut rep, &["C13"], "wrong-count", format!("{}: returned Ok({})", ctx, n));
                            }
                            if got.len() != 1 || got[0] != m.as_bytes() {
                                bad(&mut rep, &["C13"], "payload-differs", format!("{}: {} datagrams arrived, first {:?}...; expected exactly the metric bytes", ctx, got.len(), got.first().map(|g| bytes_str(&g[..g.len().min(40)]))));
                            }
                        }
                        Err(e) => {
                            rep.flag("datagram-refused");
                            tally.packets_dropped += 1;
                            tally.bytes_dropped += m.len() as u64;
                            if !got.is_empty() {
                                bad(&mut rep, &["C13"], "sent-despite-error", format!("{}: returned {} but {} datagrams arrived", ctx, e, got.len()));
                            }
                            // the limit: IPv4 65507, IPv6 65527, Unix datagram: the send buffer (far above)
                            let limit = match which.as_str() {
                                "udp" => 65507,
                                "udp6" => 65527,
                                _ => 200_000,
                            };
                            if len <= limit {
                                bad(&mut rep, &["C13"], "refused-below-limit", format!("{}: returned error {} although the socket accepts this size", ctx, e));
                            } else if e.raw_os_error().is_none() {
                                bad(&mut rep, &["C13"], "not-the-sockets-error", format!("{}: the error {:?} is not an operating-system error from the socket", ctx, e));
                            }
                        }
                    }
                    check_stats(&mut rep, &ctx, &sink.stats(), &tally);
                }
            }
            if rep.samples.is_empty() {
                rep.sample(Json::obj().set("sink", which.clone()).set("lengths", lens.to_vec()).set("final_stats", format!("{:?}", tally)));
            }
        }
    }
    // an address list: the first address yielded is the destination, whatever its family
    if which == "udp" {
        if let (Some(rx6), Some(rx4)) = (Rx::udp(true), Rx::udp(false)) {
            for v6_first in [true, false] {
                let list: Vec<SocketAddr> = if v6_first { vec![rx6.addr(), rx4.addr()] } else { vec![rx4.addr(), rx6.addr()] };
                let sock = UdpSocket::bind(if v6_first { "[::1]:0" } else { "127.0.0.1:0" }).unwrap();
                rep.evaluations += 1;
                match UdpMetricSink::from(&list[..], sock) {
                    Ok(sink) => {
                        let r = sink.emit("list:1|c");
                        let (g6, g4) = (rx6.drain().unwrap_or_default(), rx4.drain().unwrap_or_default());
                        let (want6, want4) = if v6_first { (1, 0) } else { (0, 1) };
                        if g6.len() != want6 || g4.len() != want4 || r.is_err() {
                            bad(&mut rep, &["C13"], "address-list-order", format!("UdpMetricSink::from(&{:?}) emit returned {:?}; {} datagrams arrived at the IPv6 receiver and {} at the IPv4 one (the first address of the list is the destination)", list, r, g6.len(), g4.len()));
                        }
                        rep.flag("address-list");
                    }
                    Err(e) => bad(&mut rep, &["C13"], "constructor-failed", format!("UdpMetricSink::from(&{:?}) failed: {}", list, e)),
                }
                let sock = UdpSocket::bind(if v6_first { "[::1]:0" } else { "127.0.0.1:0" }).unwrap();
                if let Ok(sink) = BufferedUdpMetricSink::with_capacity(&list[..], sock, 4) {
                    let _ = sink.emit("toolong");
                    let (g6, g4) = (rx6.drain().unwrap_or_default(), rx4.drain().unwrap_or_default());
                    let (want6, want4) = if v6_first { (1, 0) } else { (0, 1) };
                    if g6.len() != want6 || g4.len() != want4 {
                        bad(&mut rep, &["C13"], "address-list-order", format!("BufferedUdpMetricSink::with_capacity(&{:?}): {} datagrams at the IPv6 receiver, {} at the IPv4 one", list, g6.len(), g4.len()));
                    }
                }
            }
        }
    }
    // address resolution failures are errors, not panics
    if which == "udp" {
        for a in ["asdf", "", "1.2.3.4", "[::1", "127.0.0.1:99999"] {
            rep.evaluations += 1;
            let s = UdpSocket::bind("0.0.0.0:0").unwrap();
            match panic::catch_unwind(AssertUnwindSafe(|| UdpMetricSink::from(a, s))) {
                Ok(Err(_)) => rep.flag("bad-address-rejected"),
                Ok(Ok(_)) => bad(&mut rep, &["C13"], "bad-address-accepted", format!("address {:?} was accepted", a)),
                Err(_) => bad(&mut rep, &["C13", "C20"], "panic", format!("address {:?} made the constructor panic", a)),
            }
        }
    }
    rep
}

#[derive(Clone, Debug, PartialEq)]
enum BOp {
    Emit(usize),
    Flush,
    /// take the Unix server away / bring it back (writes fail with ENOENT while it is away)
    Down,
    Up,
    /// read stats(): an accessor, must not write anything
    Stats,
}

enum BSink {
    Udp(BufferedUdpMetricSink),
    Unix(BufferedUnixMetricSink),
    Spy(cadence::BufferedSpyMetricSink, crossbeam_channel::Receiver<Vec<u8>>),
}

impl BSink {
    fn sink(&self) -> &dyn MetricSink {
        match self {
            BSink::Udp(s) => s,
            BSink::Unix(s) => s,
            BSink::Spy(s, _) => s,
        }
    }
}

/// Buffered sinks on real sockets / the spy channel: all op sequences up to `depth`, every
/// datagram judged by the writer model with terminator "\n" (C13, C05, C06, C19) and the
/// counters by tallies (C14).
pub fn buffered(spec: &crate::Spec) -> Report {
    let mut rep = Report::new(&spec.raw);
    let which = spec.str("sink", "udp");
    let cap_opt = spec.opt_usize("cap"); // None = the default constructor
    let cap = cap_opt.unwrap_or(512);
    let depth = spec.usize("depth", 3);
    let mut lens: Vec<usize> = vec![0, 1, cap / 2, cap.saturating_sub(2), cap.saturating_sub(1), cap, cap + 1];
    if cap >= 16 {
        lens.push(cap / 2 - 1);
    }
    lens.sort();
    lens.dedup();
    if let Some(l) = spec.kv.get("lens") {
        lens = l.split(',').filter_map(|x| x.parse().ok()).collect();
    }
    let faults = spec.usize("faults", 0) == 1 && which == "unix";
    // fault kind: the server is away (ENOENT) or its receive queue is full (EAGAIN on a non-blocking socket)
    let eagain = faults && spec.str("fault", "enoent") == "eagain";
    if faults {
        // every length that matters for a tiny buffer: 1..=capacity+1
        lens = (1..=cap + 1).collect();
    }
    let mut alpha: Vec<BOp> = lens.iter().map(|l| BOp::Emit(*l)).collect();
    alpha.push(BOp::Flush);
    if spec.usize("stats", 0) == 1 {
        alpha.push(BOp::Stats);
    }
    if faults {
        alpha.push(BOp::Down);
        alpha.push(BOp::Up);
    }
    for hist in sequences(&alpha, depth) {
        // with faults: the server is away from the start (so that an early flush can fail)
        if hist.is_empty() || (faults && hist[0] != BOp::Down) {
            continue;
        }
        rep.evaluations += 1;
        rep.traces += 1;
        rep.distinct(&format!("{:?}", hist));
        let mut rx = match which.as_str() {
            "udp" => Rx::udp(false).unwrap(),
            "unix" => Rx::unix("brx"),
            _ => Rx::unix("unused"),
        };
        let unix_path = if which == "unix" { Some(rx.path()) } else { None };
        let mut down = false;
        let bs = match which.as_str() {
            "udp" => {
                let s = UdpSocket::bind("127.0.0.1:0").unwrap();
                BSink::Udp(match cap_opt {
                    Some(c) => BufferedUdpMetricSink::with_capacity(rx.addr(), s, c).unwrap(),
                    None => BufferedUdpMetricSink::from(rx.addr(), s).unwrap(),
                })
            }
            "unix" => {
                let s = UnixDatagram::unbound().unwrap();
                if eagain {
                    s.set_nonblocking(true).unwrap();
                }
                BSink::Unix(match cap_opt {
                    Some(c) => BufferedUnixMetricSink::with_capacity(rx.path(), s, c),
                    None => BufferedUnixMetricSink::from(rx.path(), s),
                })
            }
            _ => {
                let (r, s) = match (cap_opt, spec.usize("ctor", 0)) {
                    (Some(c), _) => cadence::BufferedSpyMetricSink::with_capacity(None, Some(c)),
                    (None, 0) => cadence::BufferedSpyMetricSink::new(),
                    (None, _) => cadence::BufferedSpyMetricSink::with_capacity(None, None),
                };
                BSink::Spy(s, r)
            }
        };
        let spy_rx = if let BSink::Spy(_, r) = &bs { Some(r.clone()) } else { None };
        let drain = |rx: &Rx| -> Result<Vec<Vec<u8>>, String> {
            match &spy_rx {
                Some(r) => Ok(r.try_iter().collect()),
                None => rx.drain(),
            }
        };
        // real refusals occur with faults injected, and on UDP whenever more than 65507 bytes are due
        let mut model = Model::new(cap, b"\n", faults || (which == "udp" && cap > 65507));
        let mut tally = Tally::default();
        let mut broken = false;
        let ctx = format!("{} buffered sink capacity {:?} history {:?}", which, cap_opt, hist);
        for (i, op) in hist.iter().enumerate() {
            match op {
                BOp::Down if eagain => {
                    if !down {
                        // fill the receive queue with junk until the kernel answers EAGAIN
                        let filler = UnixDatagram::unbound().unwrap();
                        filler.set_nonblocking(true).unwrap();
                        let mut junk = MARK.to_vec();
                        junk.extend_from_slice(b"junk");
                        let mut n = 0;
                        while filler.send_to(&junk, unix_path.as_ref().unwrap()).is_ok() && n < 10_000 {
                            n += 1;
                        }
                        down = true;
                        rep.flag("receive-queue-full");
                    }
                    continue;
                }
                BOp::Up if eagain => {
                    if down {
                        // read the junk away; nothing of the sink's can be in the queue (it was full)
                        let stray = rx.discard_all();
                        if !stray.is_empty() {
                            bad(&mut rep, &["C07", "C13"], "buffered-sent-into-full-queue", format!("{} at op {}: {} datagrams of the sink arrived although the receive queue was full", ctx, i, stray.len()));
                        }
                        down = false;
                    }
                    continue;
                }
                BOp::Down => {
                    if !down {
                        // closing the receiver and removing its path: sends now fail with ENOENT
                        rx = Rx::unix("parked");
                        let _ = std::fs::remove_file(unix_path.as_ref().unwrap());
                        down = true;
                        rep.flag("server-down");
                    }
                    continue;
                }
                BOp::Up => {
                    if down {
                        let p = unix_path.clone().unwrap();
                        let r = UnixDatagram::bind(&p).unwrap();
                        r.set_read_timeout(Some(Duration::from_secs(15))).unwrap();
                        rx = Rx::Unix(r, UnixDatagram::unbound().unwrap(), p);
                        down = false;
                    }
                    continue;
                }
                BOp::Stats => {
                    let _ = bs.sink().stats();
                    let wrote = if down { vec![] } else { drain(&rx).unwrap_or_default() };
                    if !wrote.is_empty() {
                        bad(&mut rep, &["C19", "C13"], "accessor-wrote", format!("{} at op {}: reading stats() put {} datagrams on the wire ({:?})", ctx, i, wrote.len(), wrote.iter().map(|w| bytes_str(w)).collect::<Vec<_>>()));
                        broken = true;
                        break;
                    }
                    rep.flag("stats-read-while-buffered");
                    continue;
                }
                _ => {}
            }
            let (call, res) = match op {
                BOp::Down | BOp::Up | BOp::Stats => unreachable!(),
                BOp::Emit(l) => {
                    let m = Met { letter: letter(i), len: *l };
                    let text = String::from_utf8(m.bytes()).unwrap();
                    (Call::Emit(m), panic::catch_unwind(AssertUnwindSafe(|| bs.sink().emit(&text))))
                }
                BOp::Flush => (Call::Flush, panic::catch_unwind(AssertUnwindSafe(|| bs.sink().flush().map(|_| 0)))),
            };
            let res = match res {
                Ok(r) => r,
                Err(p) => {
                    bad(&mut rep, &["C20", "C13", "C05"], "panic", format!("{}: op {} panicked: {}", ctx, i, crate::common::payload_str(&*p)));
                    broken = true;
                    break;
                }
            };
            let got = if down {
                vec![]
            } else {
                match drain(&rx) {
                    Ok(g) => g,
                    Err(e) => {
                        rep.errors.push(e);
                        return rep;
                    }
                }
            };
            for g in &got {
                tally.packets_sent += 1;
                tally.bytes_sent += g.len() as u64;
            }
            let mut attempts: Vec<Attempt> = got.iter().map(|g| Attempt { bytes: g.clone(), ok: true, fail_id: None }).collect();
            let r = match res {
                Ok(n) => {
                    // a sink may send a datagram as soon as it is exactly full and, when the socket
                    // refuses it, keep the bytes and still report the emit as accepted: such a refused
                    // send shows only in the figures (one more dropped packet of exactly the capacity)
                    if which != "spy" {
                        if let Call::Emit(m) = &call {
                            let mut line = m.bytes();
                            line.push(b'\n');
                            let mut full = model.concat(&model.pending);
                            full.extend_from_slice(&line);
                            // either everything held plus this line, or (room was made first) this line alone
                            if !(full.len() == cap && got.is_empty()) {
                                full = line;
                            }
                            let st = bs.sink().stats();
                            if full.len() == cap
                                && st.packets_dropped == tally.packets_dropped + 1
                                && st.bytes_dropped == tally.bytes_dropped + cap as u64
                            {
                                tally.packets_dropped += 1;
                                tally.bytes_dropped += cap as u64;
                                attempts.push(Attempt { bytes: full, ok: false, fail_id: Some(1) });
                                rep.flag("send-refused");
                            }
                        }
                    }
                    Res::Ok(n)
                }
                Err(e) if down => {
                    // the refused datagram cannot be observed; it is taken to be what a conforming
                    // writer would have attempted (the pending lines, or the oversize metric alone)
                    let mut bytes = match &call {
                        Call::Emit(m) if m.len + 1 > cap => m.bytes(),
                        _ => model.concat(&model.pending),
                    };
                    // an oversize emit while lines are buffered: a conforming sink may also have tried
                    // to send those lines first (and failed there); the dropped-byte figure tells which
                    if which != "spy" && matches!(&call, Call::Emit(m) if m.len + 1 > cap) && !model.pending.is_empty() {
                        let delta = bs.sink().stats().bytes_dropped.saturating_sub(tally.bytes_dropped);
                        let held = model.concat(&model.pending);
                        if delta == held.len() as u64 && delta != bytes.len() as u64 {
                            bytes = held;
                        }
                    }
                    tally.packets_dropped += 1;
                    tally.bytes_dropped += bytes.len() as u64;
                    attempts.push(Attempt { bytes, ok: false, fail_id: Some(1) });
                    rep.flag("send-refused");
                    // the error handed back must be the socket's own
                    let want = if eagain { std::io::ErrorKind::WouldBlock } else { std::io::ErrorKind::NotFound };
                    if e.kind() != want {
                        bad(&mut rep, &["C07", "C13"], "buffered-error-not-the-sockets", format!("{} at op {}: the socket refused with {:?} but the call returned {:?} ({})", ctx, i, want, e.kind(), e));
                    }
                    Res::Err(Some(1), "send refused".into())
                }
                Err(e) if which == "udp" && e.raw_os_error() == Some(90) => {
                    // EMSGSIZE: legitimate exactly when what a conforming writer would send here is
                    // larger than an IPv4 UDP payload can be
                    let bytes = match &call {
                        Call::Emit(m) if m.len + 1 > cap => m.bytes(),
                        _ => model.concat(&model.pending),
                    };
                    if bytes.len() <= 65507 {
                        bad(&mut rep, &["C13", "C07"], "buffered-emsgsize-below-limit", format!("{} at op {}: EMSGSIZE although the datagram due here has only {} bytes", ctx, i, bytes.len()));
                    }
                    tally.packets_dropped += 1;
                    tally.bytes_dropped += bytes.len() as u64;
                    attempts.push(Attempt { bytes, ok: false, fail_id: Some(1) });
                    rep.flag("datagram-too-large-for-udp");
                    Res::Err(Some(1), "EMSGSIZE".into())
                }
                Err(e) => Res::Err(None, e.to_string()),
            };
            for b in model.step(&call, &attempts, &r) {
                let mut props: Vec<&'static str> = b.props.clone();
                if which != "spy" && !props.contains(&"C13") {
                    props.push("C13");
                }
                bad(&mut rep, &props, &format!("buffered-{}", b.sig), format!("{} at op {}: {}", ctx, i, b.what));
            }
            if which != "spy" {
                check_stats(&mut rep, &format!("{} after op {}", ctx, i), &bs.sink().stats(), &tally);
            }
            if broken {
                break;
            }
        }
        if !broken && !down {
            // the final drop sends what remains
            let stats_probe = match &bs {
                BSink::Udp(_) | BSink::Unix(_) => true,
                _ => false,
            };
            let _ = stats_probe;
            drop(bs);
            let got = match drain(&rx) {
                Ok(g) => g,
                Err(e) => {
                    rep.errors.push(e);
                    return rep;
                }
            };
            let mut attempts: Vec<Attempt> = got.iter().map(|g| Attempt { bytes: g.clone(), ok: true, fail_id: None }).collect();
            if !attempts.is_empty() {
                rep.flag("drop-sent-remainder");
            }
            // what is left may be too large for any UDP datagram: the kernel refuses it (EMSGSIZE),
            // the drop cannot report that, and nothing is demanded after a failed write during drop
            let rest = model.concat(&model.pending);
            if which == "udp" && attempts.is_empty() && rest.len() > 65507 {
                attempts.push(Attempt { bytes: rest, ok: false, fail_id: Some(1) });
                rep.flag("datagram-too-large-for-udp");
            }
            for b in model.step(&Call::Drop, &attempts, &Res::Ok(0)) {
                let mut props: Vec<&'static str> = b.props.clone();
                if which != "spy" && !props.contains(&"C13") {
                    props.push("C13");
                }
                bad(&mut rep, &props, &format!("buffered-{}", b.sig), format!("{} at drop: {}", ctx, b.what));
            }
            if rep.samples.is_empty() && hist.len() == depth {
                rep.sample(Json::obj().set("history", format!("{:?}", hist)).set("datagrams", model.datagrams.iter().map(|d| bytes_str(&d.0[..d.0.len().min(60)])).collect::<Vec<_>>()));
            }
        }
        if rep.full() {
            break;
        }
    }
    rep
}

/// C14 fault sequences: all sequences up to `depth` over {emit small, emit oversize, flush,
/// take the server down / up, stop draining} with the counters compared to tallies after every
/// step; the same figures are then read through a wrapping queuing sink.
pub fn stats_faults(spec: &crate::Spec) -> Report {
    let mut rep = Report::new(&spec.raw);
    let which = spec.str("sink", "unix");
    let depth = spec.usize("depth", 4);
    #[derive(Clone, Debug, PartialEq)]
    enum Op {
        Small,
        Big,
        Flush,
        Down,
        Up,
        /// the empty string is a legal metric for a sink: a datagram of zero bytes
        Empty,
    }
    let alpha: Vec<Op> = if which.starts_with("udp") { vec![Op::Small, Op::Big, Op::Flush, Op::Empty] } else { vec![Op::Small, Op::Big, Op::Flush, Op::Down, Op::Up, Op::Empty] };
    let buffered = which.ends_with("-buf");
    let cap = 16usize;
    for hist in sequences(&alpha, depth) {
        if hist.is_empty() || hist.iter().all(|o| matches!(o, Op::Flush | Op::Down | Op::Up)) {
            continue;
        }
        rep.evaluations += 1;
        rep.traces += 1;
        rep.distinct(&format!("{:?}", hist));
        // Unix: the receiver can be taken away; UDP: only oversize datagrams fail
        let path = tmp_path("srv");
        let mut rx: Option<Rx> = None;
        let udp_rx = if which.starts_with("udp") { Rx::udp(false) } else { None };
        let mk_unix_rx = |p: &PathBuf| {
            let _ = std::fs::remove_file(p);
            let r = UnixDatagram::bind(p).unwrap();
            r.set_read_timeout(Some(Duration::from_secs(15))).unwrap();
            Rx::Unix(r, UnixDatagram::unbound().unwrap(), p.clone())
        };
        if udp_rx.is_none() {
            rx = Some(mk_unix_rx(&path));
        }
        let sink: DynSink = match which.as_str() {
            "udp" => Box::new(UdpMetricSink::from(udp_rx.as_ref().unwrap().addr(), UdpSocket::bind("127.0.0.1:0").unwrap()).unwrap()),
            "udp-buf" => Box::new(BufferedUdpMetricSink::with_capacity(udp_rx.as_ref().unwrap().addr(), UdpSocket::bind("127.0.0.1:0").unwrap(), cap).unwrap()),
            "unix" => Box::new(UnixMetricSink::from(&path, UnixDatagram::unbound().unwrap())),
            _ => Box::new(BufferedUnixMetricSink::with_capacity(&path, UnixDatagram::unbound().unwrap(), cap)),
        };
        // The sends a conforming sink may have attempted are not always unique: when an oversize metric
        // arrives while lines are buffered, the sink may first send what it holds (the statement lets
        // it write "during an emit whose metric does not fit") or keep it, as today's code does. The
        // bookkeeping therefore follows every conforming possibility (tally, bytes buffered) and keeps
        // those that agree with the results and the figures observed.
        let mut worlds: Vec<(Tally, u64)> = vec![(Tally::default(), 0)];
        let ctx = format!("{} history {:?}", which, hist);
        let big_len = if which.starts_with("udp") { 65508 } else { 250_000 };
        let mut k = 0;
        for op in &hist {
            let server_up = udp_rx.is_some() || rx.is_some();
            match op {
                Op::Down => {
                    rx = None; // closes the socket and removes the file
                    rep.flag("server-down");
                    continue;
                }
                Op::Up => {
                    if udp_rx.is_none() && rx.is_none() {
                        rx = Some(mk_unix_rx(&path));
                    }
                    continue;
                }
                _ => {}
            }
            let len = match op {
                Op::Small => 5 + (k % 3),
                Op::Big => big_len,
                _ => 0,
            };
            k += 1;
            let res = match op {
                Op::Flush => sink.flush().map(|_| 0),
                _ => sink.emit(&"m".repeat(len)),
            };
            let got = sink.stats();
            let got = Tally {
                bytes_sent: got.bytes_sent,
                packets_sent: got.packets_sent,
                bytes_dropped: got.bytes_dropped,
                packets_dropped: got.packets_dropped,
            };
            // successors of one world: lists of (attempted sends (size, succeeds), buffered afterwards, call fails)
            let step = |pending: u64| -> Vec<(Vec<(u64, bool)>, u64, bool)> {
                if !buffered {
                    return match op {
                        Op::Flush => vec![(vec![], 0, false)],
                        _ => {
                            let ok = server_up && len < big_len;
                            vec![(vec![(len as u64, ok)], 0, !ok)]
                        }
                    };
                }
                match op {
                    Op::Flush => {
                        if pending > 0 {
                            vec![(vec![(pending, server_up)], if server_up { 0 } else { pending }, !server_up)]
                        } else {
                            vec![(vec![], 0, false)]
                        }
                    }
                    _ => {
                        let need = len as u64 + 1;
                        if need > cap as u64 {
                            // oversize for the buffer (and here for the socket as well): refused
                            let mut v = vec![(vec![(len as u64, false)], pending, true)];
                            if pending > 0 {
                                if server_up {
                                    v.push((vec![(pending, true), (len as u64, false)], 0, true));
                                } else {
                                    v.push((vec![(pending, false)], pending, true));
                                }
                            }
                            v
                        } else {
                            // buffered (after making room if necessary); a datagram that is now exactly
                            // full may be sent at once - a failure of that send is not the emit's, the
                            // bytes stay buffered - or kept until the next write needs the room
                            let mut v: Vec<(Vec<(u64, bool)>, u64, bool)> = vec![];
                            let (mut before, held): (Vec<(u64, bool)>, u64) = (vec![], pending);
                            let mut held = held;
                            if pending + need > cap as u64 {
                                if !server_up {
                                    return vec![(vec![(pending, false)], pending, true)];
                                }
                                before.push((pending, true));
                                held = 0;
                            }
                            let full = held + need;
                            v.push((before.clone(), full, false));
                            if full == cap as u64 {
                                let mut a = before.clone();
                                a.push((full, server_up));
                                v.push((a, if server_up { 0 } else { full }, false));
                            }
                            v
                        }
                    }
                }
            };
            let mut next: Vec<(Tally, u64)> = vec![];
            let mut expected: Vec<(Tally, bool)> = vec![];
            for (t, pending) in &worlds {
                for (attempts, pend2, fails) in step(*pending) {
                    let mut t2 = t.clone();
                    for (size, ok) in &attempts {
                        if *ok {
                            t2.packets_sent += 1;
                            t2.bytes_sent += size;
                        } else {
                            t2.packets_dropped += 1;
                            t2.bytes_dropped += size;
                            rep.flag("send-refused");
                        }
                    }
                    expected.push((t2.clone(), fails));
                    if fails == res.is_err() && t2 == got && !next.contains(&(t2.clone(), pend2)) {
                        next.push((t2, pend2));
                    }
                }
            }
            if let Some(r) = rx.as_ref().or(udp_rx.as_ref()) {
                let _ = r.drain();
            }
            if next.is_empty() {
                if expected.iter().all(|(_, f)| *f != res.is_err()) {
                    bad(&mut rep, &["C14", "C13"], "unexpected-result", format!("{}: step {:?} returned {:?} but the harness expected failure={}", ctx, op, res, expected[0].1));
                } else {
                    bad(&mut rep, &["C14"], "stats-differ", format!("{} after {:?}: stats() reports {:?} but the sends a conforming sink can have made add up to {:?}", ctx, op, got, expected.iter().map(|e| &e.0).collect::<Vec<_>>()));
                }
                // resynchronise on the figures reported so that one defect is not reported over and over
                let pend = worlds.first().map(|w| w.1).unwrap_or(0);
                next.push((got.clone(), pend));
            }
            worlds = next;
            if rep.full() {
                return rep;
            }
        }
        let tally = worlds[0].0.clone();
        if rep.samples.is_empty() && hist.len() == depth && tally.packets_dropped > 0 {
            rep.sample(Json::obj().set("history", format!("{:?}", hist)).set("tally", format!("{:?}", tally)));
        }
        // identical when read through a wrapping queuing sink
        if hist.len() == depth {
            let before = tally.clone();
            let q = QueuingMetricSink::from(BoxSink(sink));
            check_stats(&mut rep, &format!("{} read through a queuing sink", ctx), &q.stats(), &before);
            let up = udp_rx.is_some() || rx.is_some();
            if !buffered {
                let _ = q.emit("viaq");
                let mut want = before.clone();
                if up {
                    want.packets_sent += 1;
                    want.bytes_sent += 4;
                } else {
                    want.packets_dropped += 1;
                    want.bytes_dropped += 4;
                }
                // the worker thread runs freely here: wait (generously) until it has taken the metric
                // and the send has been accounted for; running out of time is a machinery error
                let t0 = std::time::Instant::now();
                let mut settled = false;
                while t0.elapsed() < Duration::from_secs(60) {
                    let s = q.stats();
                    if q.drained() >= 1 && s.packets_sent + s.packets_dropped >= want.packets_sent + want.packets_dropped {
                        settled = true;
                        break;
                    }
                    std::thread::sleep(Duration::from_millis(1));
                }
                if !settled {
                    rep.errors.push(format!("{}: the queuing sink's worker did not process one metric within 60 s", ctx));
                    return rep;
                }
                check_stats(&mut rep, &format!("{} after one more emit through a queuing sink", ctx), &q.stats(), &want);
                rep.flag("read-through-queuing-sink");
            }
        }
    }
    rep
}

type DynSink = Box<dyn MetricSink + Send + Sync + std::panic::RefUnwindSafe>;
struct BoxSink(DynSink);
impl MetricSink for BoxSink {
    fn emit(&self, m: &str) -> std::io::Result<usize> {
        self.0.emit(m)
    }
    fn flush(&self) -> std::io::Result<()> {
        self.0.flush()
    }
    fn stats(&self) -> SinkStats {
        self.0.stats()
    }
}

/// BufferedSpyMetricSink with a bounded channel as a real fault injector (C07): the harness
/// decides when the channel is drained; while it is full every write is refused. Writes are
/// attributed to the operations that made them when the channel is drained.
pub fn spy_bounded(spec: &crate::Spec) -> Report {
    let mut rep = Report::new(&spec.raw);
    let cap = spec.usize("cap", 4);
    let q = spec.usize("q", 1);
    let depth = spec.usize("depth", 5);
    #[derive(Clone, Debug, PartialEq)]
    enum Op {
        Emit(usize),
        Flush,
        Drain,
    }
    let mut alpha: Vec<Op> = (1..=cap + 1).map(Op::Emit).collect();
    alpha.push(Op::Flush);
    alpha.push(Op::Drain);
    for hist in sequences(&alpha, depth) {
        if hist.is_empty() || !hist.iter().any(|o| matches!(o, Op::Emit(_))) {
            continue;
        }
        rep.evaluations += 1;
        rep.traces += 1;
        rep.distinct(&format!("{:?}", hist));
        let (rx, sink) = cadence::BufferedSpyMetricSink::with_capacity(Some(q), Some(cap));
        let mut model = Model::new(cap, b"\n", true);
        // operations not yet judged: (call, result, number of datagrams they put into the channel)
        let mut waiting: Vec<(Call, Result<usize, String>, usize)> = vec![];
        let mut wire: Vec<Vec<u8>> = vec![];
        let ctx = format!("bounded spy sink (queue {}, buffer {}) history {:?}", q, cap, hist);
        let mut feed = |model: &mut Model, waiting: &mut Vec<(Call, Result<usize, String>, usize)>, wire: &mut Vec<Vec<u8>>, rep: &mut Report, upto_all: bool| {
            // judge waiting operations whose datagrams have all been drained
            while let Some((_, _, n)) = waiting.first() {
                if wire.len() < *n && !upto_all {
                    break;
                }
                let (call, res, n) = waiting.remove(0);
                let n = n.min(wire.len());
                let mut attempts: Vec<Attempt> = wire.drain(..n).map(|b| Attempt { bytes: b, ok: true, fail_id: None }).collect();
                let r = match res {
                    Ok(v) => Res::Ok(v),
                    Err(e) => {
                        let bytes = match &call {
                            Call::Emit(m) if m.len + 1 > cap => m.bytes(),
                            _ => {
                                // what a conforming writer attempts after the successful writes of this call
                                let mut m2 = Model::new(cap, b"\n", true);
                                m2.pending = model.pending.clone();
                                for a in &attempts {
                                    if let Some(k) = (1..=m2.pending.len()).find(|k| m2.concat(&m2.pending[..*k]) == a.bytes) {
                                        m2.pending.drain(..k);
                                    }
                                }
                                m2.concat(&m2.pending)
                            }
                        };
                        attempts.push(Attempt { bytes, ok: false, fail_id: Some(1) });
                        rep.flag("write-refused-channel-full");
                        let _ = e;
                        Res::Err(Some(1), "channel full".into())
                    }
                };
                for b in model.step(&call, &attempts, &r) {
                    bad(rep, &b.props, &format!("spyq-{}", b.sig), format!("{}: {}", ctx, b.what));
                }
            }
        };
        for (i, op) in hist.iter().enumerate() {
            let before = rx.len();
            match op {
                Op::Drain => {
                    wire.extend(rx.try_iter());
                    feed(&mut model, &mut waiting, &mut wire, &mut rep, false);
                    continue;
                }
                Op::Emit(l) => {
                    let m = Met { letter: letter(i), len: *l };
                    let text = String::from_utf8(m.bytes()).unwrap();
                    let r = panic::catch_unwind(AssertUnwindSafe(|| sink.emit(&text)));
                    match r {
                        Ok(r) => waiting.push((Call::Emit(m), r.map_err(|e| e.to_string()), rx.len() - before)),
                        Err(_) => bad(&mut rep, &["C07", "C20"], "panic", format!("{}: emit panicked", ctx)),
                    }
                }
                Op::Flush => {
                    let r = panic::catch_unwind(AssertUnwindSafe(|| sink.flush()));
                    match r {
                        Ok(r) => waiting.push((Call::Flush, r.map(|_| 0).map_err(|e| e.to_string()), rx.len() - before)),
                        Err(_) => bad(&mut rep, &["C07", "C20"], "panic", format!("{}: flush panicked", ctx)),
                    }
                }
            }
        }
        // make room, flush, drop: everything accepted must come out exactly once
        wire.extend(rx.try_iter());
        feed(&mut model, &mut waiting, &mut wire, &mut rep, false);
        let before = rx.len();
        let r = sink.flush();
        waiting.push((Call::Flush, r.map(|_| 0).map_err(|e| e.to_string()), rx.len() - before));
        wire.extend(rx.try_iter());
        feed(&mut model, &mut waiting, &mut wire, &mut rep, false);
        drop(sink);
        wire.extend(rx.try_iter());
        let n = wire.len();
        waiting.push((Call::Drop, Ok(0), n));
        feed(&mut model, &mut waiting, &mut wire, &mut rep, true);
        if rep.samples.is_empty() && hist.len() == depth {
            rep.sample(Json::obj().set("history", format!("{:?}", hist)).set("datagrams", model.datagrams.iter().map(|d| bytes_str(&d.0)).collect::<Vec<_>>()));
        }
        if rep.full() {
            break;
        }
    }
    rep
}

/// C06 through the client: every sequence over {client metric call (short / long key), client.flush(),
/// sink-level flush} on `StatsdClient` -> `BufferedSpyMetricSink`; after every flush that returns
/// Ok, and after the drop, the datagrams received are exactly the acknowledged lines, once each.
pub fn client_flush(spec: &crate::Spec) -> Report {
    use cadence::prelude::*;
    let mut rep = Report::new(&spec.raw);
    let cap = spec.usize("cap", 16);
    let depth = spec.usize("depth", 4);
    #[derive(Clone, Debug, PartialEq)]
    enum Op {
        Short,
        Long,
        Huge,
        ClientFlush,
    }
    let alpha = vec![Op::Short, Op::Long, Op::Huge, Op::ClientFlush];
    for hist in sequences(&alpha, depth) {
        if hist.is_empty() {
            continue;
        }
        rep.evaluations += 1;
        rep.traces += 1;
        rep.distinct(&format!("{:?}", hist));
        let (rx, sink) = cadence::BufferedSpyMetricSink::with_capacity(None, Some(cap));
        let client = cadence::StatsdClient::from_sink("", sink);
        let mut acked_fitting: Vec<String> = vec![];
        let mut acked_huge: Vec<String> = vec![];
        let mut wire: Vec<Vec<u8>> = vec![];
        let ctx = format!("client -> buffered spy sink (buffer {}) history {:?}", cap, hist);
        let check = |when: &str, wire: &Vec<Vec<u8>>, fitting: &Vec<String>, huge: &Vec<String>, rep: &mut Report| {
            let mut lines: Vec<String> = vec![];
            for d in wire {
                let t = String::from_utf8_lossy(d).to_string();
                if huge.contains(&t) {
                    continue;
                }
                if !t.ends_with('\n') {
                    bad(rep, &["C06", "C05"], "client-partial-line", format!("{} {}: datagram {:?} is not whole lines", ctx, when, t));
                }
                lines.extend(t.trim_end_matches('\n').split('\n').map(|s| s.to_string()));
            }
            if lines != *fitting {
                bad(rep, &["C06"], "client-flush-conservation", format!("{} {}: acknowledged lines {:?} but the receiver holds {:?}", ctx, when, fitting, lines));
            }
            for h in huge {
                let n = wire.iter().filter(|d| d.as_slice() == h.as_bytes()).count();
                if n != 1 {
                    bad(rep, &["C06"], "client-oversize-count", format!("{} {}: oversize line {:?} appears {} times on the wire", ctx, when, h, n));
                }
            }
        };
        for (i, op) in hist.iter().enumerate() {
            let key = match op {
                Op::Short => format!("{}", letter(i) as char),
                Op::Long => format!("{}", (letter(i) as char).to_string().repeat(cap - 6)),
                Op::Huge => format!("{}", (letter(i) as char).to_string().repeat(cap + 3)),
                Op::ClientFlush => String::new(),
            };
            if *op == Op::ClientFlush {
                let r = client.flush();
                wire.extend(rx.try_iter());
                match r {
                    Ok(()) => {
                        rep.flag("client-flush-ok");
                        check(&format!("after client.flush() (op {})", i), &wire, &acked_fitting, &acked_huge, &mut rep);
                        // flushing again writes nothing
                        let _ = client.flush();
                        let extra: Vec<Vec<u8>> = rx.try_iter().collect();
                        if !extra.is_empty() {
                            bad(&mut rep, &["C06"], "second-flush-wrote", format!("{}: a second client.flush() wrote {:?}", ctx, extra.iter().map(|e| bytes_str(e)).collect::<Vec<_>>()));
                        }
                    }
                    Err(e) => bad(&mut rep, &["C06"], "client-flush-failed", format!("{}: client.flush() failed without any socket failure: {}", ctx, e)),
                }
                continue;
            }
            match client.count(&key, 1) {
                Ok(m) => {
                    let line = cadence::Metric::as_metric_str(&m).to_string();
                    if line.len() + 1 > cap {
                        acked_huge.push(line);
                    } else {
                        acked_fitting.push(line);
                    }
                }
                Err(e) => bad(&mut rep, &["C06"], "client-call-failed", format!("{}: count({:?}) failed without any socket failure: {}", ctx, key, e)),
            }
            wire.extend(rx.try_iter());
        }
        drop(client);
        wire.extend(rx.try_iter());
        check("after the client was dropped", &wire, &acked_fitting, &acked_huge, &mut rep);
        if rep.samples.is_empty() && hist.len() == depth {
            rep.sample(Json::obj().set("history", format!("{:?}", hist)).set("wire", wire.iter().map(|d| bytes_str(d)).collect::<Vec<_>>()));
        }
        if rep.full() {
            break;
        }
    }
    rep
}


/// C14 beyond 32 bits: more than 2^32 bytes accounted on one sink (refused sends of one huge
/// payload, which cost no I/O) and many datagrams through one sink; the figures stay exact.
pub fn stats_volume(spec: &crate::Spec) -> Report {
    let mut rep = Report::new(&spec.raw);
    let rx = Rx::udp(false).unwrap();
    let sink = UdpMetricSink::from(rx.addr(), UdpSocket::bind("127.0.0.1:0").unwrap()).unwrap();
    let huge = "x".repeat(96 << 20);
    let mut tally = Tally::default();
    let n = spec.usize("n", 48);
    for i in 0..n {
        rep.evaluations += 1;
        match sink.emit(&huge) {
            Ok(_) => {
                bad(&mut rep, &["C14", "C13"], "huge-accepted", "a 96 MiB datagram was accepted".into());
                return rep;
            }
            Err(_) => {
                tally.packets_dropped += 1;
                tally.bytes_dropped += huge.len() as u64;
            }
        }
        if i % 8 == 7 || i + 1 == n {
            check_stats(&mut rep, &format!("after {} refused sends of 96 MiB ({} bytes in total)", i + 1, tally.bytes_dropped), &sink.stats(), &tally);
        }
        if rep.full() {
            return rep;
        }
    }
    rep.distinct(&tally.bytes_dropped);
    // and through a wrapping queuing sink
    let q = QueuingMetricSink::from(sink);
    check_stats(&mut rep, "read through a queuing sink after more than 2^32 dropped bytes", &q.stats(), &tally);
    // many accepted datagrams of the maximum size on a second sink (> 2^32 bytes sent)
    let sink2 = UdpMetricSink::from(rx.addr(), UdpSocket::bind("127.0.0.1:0").unwrap()).unwrap();
    let m = "y".repeat(65507);
    let mut t2 = Tally::default();
    let rounds = spec.usize("sent", 66_000);
    for i in 0..rounds {
        match sink2.emit(&m) {
            Ok(_) => {
                t2.packets_sent += 1;
                t2.bytes_sent += m.len() as u64;
            }
            Err(_) => {
                t2.packets_dropped += 1;
                t2.bytes_dropped += m.len() as u64;
            }
        }
        if i % 64 == 0 {
            let _ = rx.discard_all();
        }
    }
    let _ = rx.discard_all();
    rep.evaluations += rounds as u64;
    rep.distinct(&t2.bytes_sent);
    check_stats(&mut rep, &format!("after {} datagrams of 65507 bytes", rounds), &sink2.stats(), &t2);
    rep.flag("more-than-2^32-bytes-accounted");
    rep.sample(Json::obj().set("bytes_dropped", tally.bytes_dropped).set("bytes_sent", t2.bytes_sent));
    rep
}

/// seqx/sock-conn: UDP sinks over a socket the caller has `connect()`ed, with the peer going away
/// and coming back (C07, C13, C05). A connected UDP socket reports the ICMP "port unreachable"
/// caused by an earlier datagram as `ECONNREFUSED` on a later send, which then sends nothing: the
/// one way a real UDP socket write fails on loopback. Every history over {emit, flush, peer down,
/// peer up} up to a depth is run. While the peer is away the kernel accepts datagrams it then
/// discards, so loss is not judged; what is judged holds whenever the refusals happen to land:
/// no metric arrives twice, no metric whose emit returned an error ever arrives, every datagram
/// is well-formed, and (unbuffered) a send that returned Ok while the peer was up arrives.
pub fn connected_udp(spec: &crate::Spec) -> Report {
    let mut rep = Report::new(&spec.raw);
    let depth = spec.usize("depth", 5);
    let cap = spec.opt_usize("cap"); // None: the unbuffered sink
    #[derive(Clone, Copy, Debug, PartialEq)]
    enum Op {
        Emit,
        Flush,
        Down,
        Up,
    }
    let alpha: Vec<Op> = if cap.is_some() { vec![Op::Emit, Op::Flush, Op::Down, Op::Up] } else { vec![Op::Emit, Op::Down, Op::Up] };
    // all histories in which Down / Up alternate properly
    let mut hists: Vec<Vec<Op>> = vec![];
    fn rec(cur: &mut Vec<Op>, up: bool, depth: usize, alpha: &[Op], out: &mut Vec<Vec<Op>>) {
        if !cur.is_empty() {
            out.push(cur.clone());
        }
        if cur.len() == depth {
            return;
        }
        for &op in alpha {
            let next_up = match op {
                Op::Down if up => false,
                Op::Up if !up => true,
                Op::Down | Op::Up => continue,
                _ => up,
            };
            cur.push(op);
            rec(cur, next_up, depth, alpha, out);
            cur.pop();
        }
    }
    rec(&mut vec![], true, depth, &alpha, &mut hists);
    // only histories in which the peer is away at some point add to what the other checks cover
    hists.retain(|h| h.contains(&Op::Down) && h.contains(&Op::Emit));
    let tx = UdpSocket::bind("127.0.0.1:0").unwrap();
    // While the peer is away its port is free, and the sink keeps sending to it: with several harness
    // processes at work the kernel can hand that port to somebody else's receiver (seen once under load:
    // a datagram of a neighbouring instance arrived here and was reported as foreign bytes). The whole
    // 127/8 block is local, so every process runs this engine on a loopback address of its own; ports
    // bound to a specific address only receive what is addressed to it.
    let pid = std::process::id();
    let own = format!("127.{}.{}.{}:0", 1 + pid % 250, (pid / 250) % 250, 2 + (pid / 62_500) % 250);
    let own = if UdpSocket::bind(own.as_str()).is_ok() { own } else { "127.0.0.1:0".to_string() };
    rep.flag(if own.starts_with("127.0.0.1:") { "shared-loopback-address" } else { "own-loopback-address" });
    'hist: for h in &hists {
        rep.traces += 1;
        let first = UdpSocket::bind(own.as_str()).unwrap();
        first.set_read_timeout(Some(Duration::from_secs(15))).unwrap();
        let addr = first.local_addr().unwrap();
        let mut peer: Option<Rx> = Some(Rx::Udp(first, tx.try_clone().unwrap()));
        let sock = UdpSocket::bind(own.as_str()).unwrap();
        sock.connect(addr).unwrap();
        let sink: Box<dyn MetricSink> = match cap {
            None => Box::new(UdpMetricSink::from(addr, sock).unwrap()),
            Some(c) => Box::new(BufferedUdpMetricSink::with_capacity(addr, sock, c).unwrap()),
        };
        let ctx = format!("{} over a connected socket, history {:?}", if let Some(c) = cap { format!("BufferedUdpMetricSink(capacity {})", c) } else { "UdpMetricSink".to_string() }, h);
        let mut arrived: Vec<Vec<u8>> = vec![];
        let mut refused: Vec<String> = vec![];
        let mut accepted: Vec<String> = vec![];
        let mut n = 0;
        let mut ok_up_unbuffered: Vec<String> = vec![];
        let mut ops: Vec<Op> = h.clone();
        // epilogue: peer back, then flush until it says Ok (a queued refusal may fail one of them)
        if peer.is_none() || ops.iter().rev().find(|o| matches!(o, Op::Down | Op::Up)) == Some(&Op::Down) {
            ops.push(Op::Up);
        }
        ops.extend([Op::Flush, Op::Flush, Op::Flush]);
        let mut panicked = false;
        for op in ops {
            rep.evaluations += 1;
            match op {
                Op::Down => {
                    if let Some(rx) = peer.take() {
                        if let Ok(d) = rx.drain() {
                            arrived.extend(d);
                        }
                        drop(rx);
                    }
                }
                Op::Up => {
                    if peer.is_none() {
                        let mut s = None;
                        for _ in 0..50 {
                            match UdpSocket::bind(addr) {
                                Ok(x) => {
                                    s = Some(x);
                                    break;
                                }
                                Err(_) => std::thread::sleep(Duration::from_millis(2)),
                            }
                        }
                        let Some(s) = s else {
                            // somebody else got the port in the meantime: no verdict for this history
                            rep.flag("port-taken-history-skipped");
                            continue 'hist;
                        };
                        s.set_read_timeout(Some(Duration::from_secs(15))).unwrap();
                        peer = Some(Rx::Udp(s, tx.try_clone().unwrap()));
                    }
                }
                Op::Emit => {
                    let m = format!("m{}:1|c", n);
                    n += 1;
                    match panic::catch_unwind(AssertUnwindSafe(|| sink.emit(&m))) {
                        Ok(Ok(_)) => {
                            accepted.push(m.clone());
                            if cap.is_none() && peer.is_some() {
                                ok_up_unbuffered.push(m);
                            }
                        }
                        Ok(Err(_)) => {
                            rep.flag("refusal-on-a-connected-socket");
                            refused.push(m)
                        }
                        Err(_) => panicked = true,
                    }
                }
                Op::Flush => {
                    if panic::catch_unwind(AssertUnwindSafe(|| sink.flush())).is_err() {
                        panicked = true;
                    }
                }
            }
            if let Some(rx) = &peer {
                match rx.drain() {
                    Ok(d) => arrived.extend(d),
                    Err(e) => {
                        rep.errors.push(e);
                        return rep;
                    }
                }
            }
        }
        drop(sink);
        if let Some(rx) = &peer {
            if let Ok(d) = rx.drain() {
                arrived.extend(d);
            }
        }
        if panicked {
            bad(&mut rep, &["C07", "C13", "C20"], "panic", format!("{}: a call panicked", ctx));
        }
        let mut lines: Vec<String> = vec![];
        for d in &arrived {
            let text = String::from_utf8_lossy(d).to_string();
            match cap {
                None => lines.push(text),
                Some(c) => {
                    let whole = text.ends_with('\n') && d.len() <= c.max(1);
                    let alone = !text.contains('\n') && d.len() + 1 > c;
                    if !(whole || alone) {
                        bad(&mut rep, &["C05", "C07", "C13"], "framing", format!("{}: datagram {:?} is neither complete lines within the capacity nor one oversize metric alone", ctx, text));
                    }
                    lines.extend(text.trim_end_matches('\n').split('\n').map(|s| s.to_string()));
                }
            }
        }
        for l in &lines {
            if lines.iter().filter(|x| *x == l).count() > 1 {
                bad(&mut rep, &["C07", "C06", "C13"], "written-twice", format!("{}: {:?} arrived more than once ({:?})", ctx, l, lines));
                break;
            }
        }
        for l in &lines {
            if refused.contains(l) {
                bad(&mut rep, &["C07", "C13"], "sent-despite-error", format!("{}: emit({:?}) returned an error but the metric arrived ({:?})", ctx, l, lines));
            } else if !accepted.contains(l) {
                bad(&mut rep, &["C13", "C05"], "foreign-bytes", format!("{}: {:?} arrived but was never emitted", ctx, l));
            }
        }
        for m in &ok_up_unbuffered {
            if !lines.contains(m) {
                bad(&mut rep, &["C13"], "accepted-but-not-sent", format!("{}: emit({:?}) returned Ok while the peer was up but nothing arrived ({:?})", ctx, m, lines));
            }
        }
        rep.distinct(&(format!("{:?}", h), lines.len(), refused.len()));
    }
    rep.sample(Json::obj().set("histories", hists.len()).set("depth", depth).set("sink", format!("{:?}", cap)));
    rep.flag("peer-went-away-and-came-back");
    rep
}

/// seqx/sock-rebind: the Unix sinks address a *path*. Histories over {emit, flush, a new server
/// binds the path while the old one stays open, the old server closes}: every datagram a send
/// reported as accepted arrives at whoever is bound to the path at that moment, none at a
/// previous binder (C13). Plus: a buffered sink (spy, UDP, Unix) dropped while its thread unwinds
/// from a panic still sends what remains (C13, C06).
pub fn rebind_and_unwind(spec: &crate::Spec) -> Report {
    let mut rep = Report::new(&spec.raw);
    let depth = spec.usize("depth", 4);
    #[derive(Clone, Copy, Debug, PartialEq)]
    enum Op {
        Emit,
        Flush,
        Rebind,
        CloseOld,
    }
    for cap in [None, Some(8usize), Some(64)] {
        let alpha: Vec<Op> = if cap.is_some() { vec![Op::Emit, Op::Flush, Op::Rebind, Op::CloseOld] } else { vec![Op::Emit, Op::Rebind, Op::CloseOld] };
        let hists: Vec<Vec<Op>> = crate::fmt::sequences(&alpha, depth).into_iter().filter(|h| h.contains(&Op::Rebind) && h.contains(&Op::Emit)).collect();
        for h in &hists {
            rep.traces += 1;
            let mut current = Rx::unix("rebind");
            let path = current.path();
            let mut old: Vec<Rx> = vec![];
            let sock = UnixDatagram::unbound().unwrap();
            let sink: Box<dyn MetricSink> = match cap {
                None => Box::new(UnixMetricSink::from(&path, sock)),
                Some(c) => Box::new(BufferedUnixMetricSink::with_capacity(&path, sock, c)),
            };
            let ctx = format!("{} given path P, history {:?}", if let Some(c) = cap { format!("BufferedUnixMetricSink(capacity {})", c) } else { "UnixMetricSink".to_string() }, h);
            let mut n = 0;
            let mut accepted: Vec<String> = vec![];
            let mut at_current: Vec<String> = vec![];
            let mut ops = h.clone();
            ops.extend([Op::Flush, Op::Flush]);
            for op in ops {
                rep.evaluations += 1;
                match op {
                    Op::Emit => {
                        let m = format!("m{}:1|c", n);
                        n += 1;
                        if let Ok(Ok(_)) = panic::catch_unwind(AssertUnwindSafe(|| sink.emit(&m))) {
                            accepted.push(m);
                        }
                    }
                    Op::Flush => {
                        let _ = panic::catch_unwind(AssertUnwindSafe(|| sink.flush()));
                    }
                    Op::Rebind => {
                        // a new server takes over the path; the previous one keeps its socket open
                        let _ = std::fs::remove_file(&path);
                        let rx = match UnixDatagram::bind(&path) {
                            Ok(s) => s,
                            Err(e) => {
                                rep.errors.push(format!("cannot bind {:?} again: {}", path, e));
                                return rep;
                            }
                        };
                        rx.set_read_timeout(Some(Duration::from_secs(15))).unwrap();
                        let fresh = Rx::Unix(rx, UnixDatagram::unbound().unwrap(), path.clone());
                        old.push(std::mem::replace(&mut current, fresh));
                    }
                    Op::CloseOld => {
                        for o in old.drain(..) {
                            if let Rx::Unix(rx, _, _) = &o {
                                let _ = rx.set_nonblocking(true);
                                let mut buf = vec![0u8; 70_000];
                                while let Ok(k) = rx.recv(&mut buf) {
                                    if !buf[..k].starts_with(&MARK) {
                                        bad(&mut rep, &["C13"], "wrong-destination", format!("{}: {:?} arrived at a server that no longer owns the path", ctx, bytes_str(&buf[..k.min(60)])));
                                    }
                                }
                            }
                            // close it, but do not let Rx::drop unlink the path: it belongs to the current server now
                            let mut o = o;
                            if let Rx::Unix(_, _, p) = &mut o {
                                *p = PathBuf::from("/nonexistent/verif-old-server");
                            }
                            drop(o);
                        }
                    }
                }
                match current.drain() {
                    Ok(d) => {
                        for g in d {
                            let text = String::from_utf8_lossy(&g).to_string();
                            at_current.extend(text.trim_end_matches('\n').split('\n').map(|s| s.to_string()));
                        }
                    }
                    Err(e) => {
                        rep.errors.push(e);
                        return rep;
                    }
                }
                for o in &old {
                    if let Rx::Unix(rx, _, _) = o {
                        let _ = rx.set_nonblocking(true);
                        let mut buf = vec![0u8; 70_000];
                        while let Ok(k) = rx.recv(&mut buf) {
                            if !buf[..k].starts_with(&MARK) {
                                bad(&mut rep, &["C13"], "wrong-destination", format!("{}: {:?} arrived at a server that no longer owns the path", ctx, bytes_str(&buf[..k.min(60)])));
                            }
                        }
                        let _ = rx.set_nonblocking(false);
                    }
                }
            }
            drop(sink);
            if let Ok(d) = current.drain() {
                for g in d {
                    let text = String::from_utf8_lossy(&g).to_string();
                    at_current.extend(text.trim_end_matches('\n').split('\n').map(|s| s.to_string()));
                }
            }
            for m in &accepted {
                let k = at_current.iter().filter(|x| *x == m).count();
                if k != 1 {
                    bad(&mut rep, &["C13", "C06"], "not-at-the-path", format!("{}: {:?} was accepted but arrived {} times at the servers that owned the path when it was sent ({:?})", ctx, m, k, at_current));
                    break;
                }
            }
            for mut o in old.drain(..) {
                if let Rx::Unix(_, _, p) = &mut o {
                    *p = PathBuf::from("/nonexistent/verif-old-server");
                }
                drop(o);
            }
            rep.distinct(&(format!("{:?}{:?}", cap, h), at_current.len()));
        }
    }
    rep.flag("path-taken-over-by-a-new-server");
    // buffered sinks dropped while their thread unwinds from a panic
    for which in ["spy", "udp", "unix"] {
        for k in 1..=3usize {
            rep.evaluations += 1;
            let urx = Rx::unix("unwind");
            let udp = Rx::udp(false).unwrap();
            let (spy_rx, sink): (Option<_>, Box<dyn MetricSink>) = match which {
                "spy" => {
                    let (r, s) = cadence::BufferedSpyMetricSink::with_capacity(None, Some(64));
                    (Some(r), Box::new(s))
                }
                "udp" => (None, Box::new(BufferedUdpMetricSink::with_capacity(udp.addr(), UdpSocket::bind("127.0.0.1:0").unwrap(), 64).unwrap())),
                _ => (None, Box::new(BufferedUnixMetricSink::with_capacity(urx.path(), UnixDatagram::unbound().unwrap(), 64))),
            };
            let names: Vec<String> = (0..k).map(|i| format!("u{}:1|c", i)).collect();
            let n2 = names.clone();
            let _ = panic::catch_unwind(AssertUnwindSafe(move || {
                let s = sink;
                for m in &n2 {
                    let _ = s.emit(m);
                }
                panic::panic_any(crate::rt::ScriptedPanic("the thread that owns the sink panics".into()));
            }));
            let got: Vec<Vec<u8>> = match which {
                "spy" => spy_rx.unwrap().try_iter().collect(),
                "udp" => udp.drain().unwrap_or_default(),
                _ => urx.drain().unwrap_or_default(),
            };
            let text: String = got.iter().map(|g| String::from_utf8_lossy(g).to_string()).collect();
            let want: String = names.iter().map(|m| format!("{}\n", m)).collect();
            if text != want {
                bad(&mut rep, &["C13", "C06"], "not-sent-on-drop-while-unwinding", format!("a buffered {} sink holding {} metrics was dropped while its thread unwound from a panic: {:?} arrived, expected {:?}", which, k, text, want));
            }
        }
    }
    rep.flag("dropped-while-unwinding");
    rep
}
