//! Independent reference for the DogStatsD line format (shares no code with cadence).
use crate::api::{ClientCfg, Kind, Row, Step, Val};
use std::time::Duration;

/// Decimal numeral of an integer, by repeated division.
pub fn dec(v: i128) -> String {
    if v == 0 {
        return "0".into();
    }
    let mut n = v.unsigned_abs();
    let mut d = vec![];
    while n > 0 {
        d.push(b'0' + (n % 10) as u8);
        n /= 10;
    }
    if v < 0 {
        d.push(b'-');
    }
    d.reverse();
    String::from_utf8(d).unwrap()
}

/// Expected text pieces of a line.
#[derive(Clone, Debug, PartialEq)]
pub enum Piece {
    Lit(String),
    /// a finite float: any decimal numeral that parses back to exactly these bits
    Float(f64),
}

pub fn millis(d: &Duration) -> u128 {
    // floor(milliseconds), computed without Duration::as_millis
    d.as_secs() as u128 * 1000 + (d.subsec_nanos() as u128) / 1_000_000
}

pub fn nanos(d: &Duration) -> u128 {
    d.as_secs() as u128 * 1_000_000_000 + d.subsec_nanos() as u128
}

/// What the value argument must become on the wire: `Err(())` = must be rejected as invalid input.
pub fn values(row: &Row, val: &Val) -> Result<Vec<Piece>, ()> {
    let int = |v: i128| Piece::Lit(dec(v));
    let dur = |d: &Duration| -> Result<Piece, ()> {
        let n = if row.kind == Kind::Timer { millis(d) } else { nanos(d) };
        if n > u64::MAX as u128 {
            Err(())
        } else {
            Ok(Piece::Lit(dec(n as i128)))
        }
    };
    let list = |v: Vec<Result<Piece, ()>>| -> Result<Vec<Piece>, ()> {
        if v.is_empty() {
            return Err(());
        }
        v.into_iter().collect()
    };
    match val {
        Val::I64(v) => Ok(vec![int(*v as i128)]),
        Val::I32(v) => Ok(vec![int(*v as i128)]),
        Val::U64(v) => Ok(vec![int(*v as i128)]),
        Val::U32(v) => Ok(vec![int(*v as i128)]),
        Val::F64(v) => Ok(vec![Piece::Float(*v)]),
        Val::Dur(d) => Ok(vec![dur(d)?]),
        Val::VU64(v) => list(v.iter().map(|x| Ok(int(*x as i128))).collect()),
        Val::VF64(v) => list(v.iter().map(|x| Ok(Piece::Float(*x))).collect()),
        Val::VDur(v) => list(v.iter().map(dur).collect()),
        Val::None => Ok(vec![int(if row.name == "incr" { 1 } else { -1 })]),
    }
}

pub fn full_name(prefix: &str, key: &str) -> String {
    if prefix.is_empty() {
        key.to_string()
    } else {
        format!("{}.{}", prefix.trim_end_matches('.'), key)
    }
}

/// The prefix a standalone constructor has to be given to denote the same full name.
pub fn full_prefix(prefix: &str) -> String {
    if prefix.is_empty() {
        String::new()
    } else {
        format!("{}.", prefix.trim_end_matches('.'))
    }
}

/// Sections a call supplies, derived from the builder steps (last write wins for scalars).
#[derive(Clone, Debug, Default, PartialEq)]
pub struct Sections {
    pub rate: Option<f64>,
    pub tags: Vec<(Option<String>, String)>,
    pub container: Option<String>,
    pub timestamp: Option<u64>,
}

pub fn sections(cfg: &ClientCfg, steps: &[Step]) -> Sections {
    let mut s = Sections {
        tags: cfg.tags.clone(),
        container: cfg.container.clone(),
        ..Default::default()
    };
    for st in steps {
        match st {
            Step::Tag(k, v) => s.tags.push((Some(k.clone()), v.clone())),
            Step::TagValue(v) => s.tags.push((None, v.clone())),
            Step::Rate(r) => s.rate = Some(*r),
            Step::Container(c) => s.container = Some(c.clone()),
            Step::Timestamp(t) => s.timestamp = Some(*t),
        }
    }
    s
}

/// The expected line as pieces: `<name>:<v1>[:<v2>...]|<type>[|@rate][|#tags][|c:id][|T ts]`.
pub fn expected(cfg: &ClientCfg, row: &Row, key: &str, vals: &[Piece], sec: &Sections) -> Vec<Piece> {
    let mut out: Vec<Piece> = vec![];
    let mut lit = String::new();
    lit.push_str(&full_name(&cfg.prefix, key));
    lit.push(':');
    for (i, v) in vals.iter().enumerate() {
        if i > 0 {
            lit.push(':');
        }
        match v {
            Piece::Lit(s) => lit.push_str(s),
            Piece::Float(f) => {
                out.push(Piece::Lit(std::mem::take(&mut lit)));
                out.push(Piece::Float(*f));
            }
        }
    }
    lit.push('|');
    lit.push_str(row.kind.code());
    if let Some(r) = sec.rate {
        lit.push_str("|@");
        out.push(Piece::Lit(std::mem::take(&mut lit)));
        out.push(Piece::Float(r));
    }
    if !sec.tags.is_empty() {
        lit.push_str("|#");
        for (i, (k, v)) in sec.tags.iter().enumerate() {
            if i > 0 {
                lit.push(',');
            }
            if let Some(k) = k {
                lit.push_str(k);
                lit.push(':');
            }
            lit.push_str(v);
        }
    }
    if let Some(c) = &sec.container {
        lit.push_str("|c:");
        lit.push_str(c);
    }
    if let Some(t) = sec.timestamp {
        lit.push_str("|T");
        lit.push_str(&dec(t as i128));
    }
    if !lit.is_empty() {
        out.push(Piece::Lit(lit));
    }
    out
}

/// Is `tok` a plain decimal numeral (optional sign, digits, optional fraction, optional exponent)?
pub fn is_decimal_numeral(tok: &str) -> bool {
    let b = tok.as_bytes();
    let mut i = 0;
    if i < b.len() && b[i] == b'-' {
        i += 1;
    }
    let d0 = i;
    while i < b.len() && b[i].is_ascii_digit() {
        i += 1;
    }
    if i == d0 {
        return false;
    }
    if i < b.len() && b[i] == b'.' {
        i += 1;
        let f0 = i;
        while i < b.len() && b[i].is_ascii_digit() {
            i += 1;
        }
        if i == f0 {
            return false;
        }
    }
    if i < b.len() && (b[i] == b'e' || b[i] == b'E') {
        i += 1;
        if i < b.len() && (b[i] == b'+' || b[i] == b'-') {
            i += 1;
        }
        let e0 = i;
        while i < b.len() && b[i].is_ascii_digit() {
            i += 1;
        }
        if i == e0 {
            return false;
        }
    }
    i == b.len()
}

/// Does `actual` match the expected pieces? Float pieces match any decimal numeral that parses
/// back to the bit-identical number. Returns a description of the first mismatch.
pub fn matches(actual: &str, pieces: &[Piece]) -> Result<(), String> {
    let mut rest = actual;
    for (i, p) in pieces.iter().enumerate() {
        match p {
            Piece::Lit(l) => {
                if !rest.starts_with(l.as_str()) {
                    return Err(format!("expected {:?} at byte {} but found {:?}", l, actual.len() - rest.len(), rest));
                }
                rest = &rest[l.len()..];
            }
            Piece::Float(f) => {
                // the token runs up to the next separator the grammar allows after a number
                let end = rest.find([':', '|']).unwrap_or(rest.len());
                let tok = &rest[..end];
                if !f.is_finite() {
                    // non-finite numbers have no decimal numeral; nothing is demanded of their spelling
                    rest = &rest[end..];
                    continue;
                }
                if !is_decimal_numeral(tok) {
                    return Err(format!("number field {:?} (piece {}) is not a decimal numeral", tok, i));
                }
                match tok.parse::<f64>() {
                    Ok(back) if back.to_bits() == f.to_bits() => {}
                    Ok(back) => return Err(format!("number field {:?} parses back to {:e} (bits {:x}) instead of {:e} (bits {:x})", tok, back, back.to_bits(), f, f.to_bits())),
                    Err(_) => return Err(format!("number field {:?} does not parse", tok)),
                }
                rest = &rest[end..];
            }
        }
    }
    if !rest.is_empty() {
        return Err(format!("unexpected trailing text {:?}", rest));
    }
    Ok(())
}

// ---------------------------------------------------------------------------------------------
// parsing a line back (only meaningful when no supplied string contains a delimiter)

#[derive(Clone, Debug, Default, PartialEq)]
pub struct Parsed {
    pub name: String,
    pub values: Vec<String>,
    pub type_code: String,
    pub rate: Option<String>,
    pub tags: Option<Vec<(Option<String>, String)>>,
    pub container: Option<String>,
    pub timestamp: Option<String>,
}

pub fn parse(line: &str) -> Result<Parsed, String> {
    let mut parts = line.split('|');
    let head = parts.next().ok_or("empty line")?;
    let (name, vals) = head.split_once(':').ok_or_else(|| format!("no ':' in {:?}", head))?;
    let mut p = Parsed {
        name: name.to_string(),
        values: vals.split(':').map(|s| s.to_string()).collect(),
        type_code: parts.next().ok_or("no type section")?.to_string(),
        ..Default::default()
    };
    // optional sections must come in the fixed order @, #, c:, T and at most once each
    let mut stage = 0;
    for sec in parts {
        let (st, _) = if let Some(r) = sec.strip_prefix('@') {
            p.rate = Some(r.to_string());
            (1, ())
        } else if let Some(t) = sec.strip_prefix('#') {
            p.tags = Some(
                t.split(',')
                    .map(|tag| match tag.split_once(':') {
                        Some((k, v)) => (Some(k.to_string()), v.to_string()),
                        None => (None, tag.to_string()),
                    })
                    .collect(),
            );
            (2, ())
        } else if let Some(c) = sec.strip_prefix("c:") {
            p.container = Some(c.to_string());
            (3, ())
        } else if let Some(t) = sec.strip_prefix('T') {
            p.timestamp = Some(t.to_string());
            (4, ())
        } else {
            return Err(format!("unknown section {:?}", sec));
        };
        if st <= stage {
            return Err(format!("section {:?} out of order or repeated", sec));
        }
        stage = st;
    }
    Ok(p)
}

pub fn has_delimiter(s: &str) -> bool {
    s.contains([':', '|', '#', ',', '@', '\n'])
}

/// Round trip: the parsed line yields exactly what was supplied.
pub fn round_trip(line: &str, cfg: &ClientCfg, row: &Row, key: &str, vals: &[Piece], sec: &Sections) -> Result<(), String> {
    let p = parse(line)?;
    let want_name = full_name(&cfg.prefix, key);
    if p.name != want_name {
        return Err(format!("name {:?} != {:?}", p.name, want_name));
    }
    if p.type_code != row.kind.code() {
        return Err(format!("type {:?} != {:?}", p.type_code, row.kind.code()));
    }
    if p.values.len() != vals.len() || vals.is_empty() {
        return Err(format!("{} values on the line, {} supplied", p.values.len(), vals.len()));
    }
    for (got, want) in p.values.iter().zip(vals) {
        matches(got, std::slice::from_ref(want)).map_err(|e| format!("value: {}", e))?;
    }
    match (&p.rate, sec.rate) {
        (None, None) => {}
        (Some(g), Some(w)) => matches(g, &[Piece::Float(w)]).map_err(|e| format!("rate: {}", e))?,
        (g, w) => return Err(format!("rate on line {:?}, supplied {:?}", g, w)),
    }
    let want_tags = if sec.tags.is_empty() { None } else { Some(sec.tags.clone()) };
    if p.tags != want_tags {
        return Err(format!("tags on line {:?}, supplied {:?}", p.tags, want_tags));
    }
    if p.container != sec.container {
        return Err(format!("container on line {:?}, supplied {:?}", p.container, sec.container));
    }
    let want_ts = sec.timestamp.map(|t| dec(t as i128));
    if p.timestamp != want_ts {
        return Err(format!("timestamp on line {:?}, supplied {:?}", p.timestamp, want_ts));
    }
    Ok(())
}
