//! seqx/fmt: exhaustive enumeration of line formatting over small alphabets (C01, C04).
use crate::api::{self, call, ClientCfg, Form, Kind, Rig, Row, Step, Val, ROWS, VT};
use crate::common::{Report, Violation};
use crate::json::Json;
use crate::reffmt::{self, Piece, Sections};
use cadence::ErrorKind;
use std::panic::{self, AssertUnwindSafe};
use std::time::Duration;

/// All ways of making the builder calls: every permutation of `others`, interleaved in every way
/// with `tags` (whose relative order is part of the input).
pub fn orders(tags: &[Step], others: &[Step]) -> Vec<Vec<Step>> {
    fn perms(v: &[Step]) -> Vec<Vec<Step>> {
        if v.len() <= 1 {
            return vec![v.to_vec()];
        }
        let mut out = vec![];
        for i in 0..v.len() {
            let mut rest = v.to_vec();
            let x = rest.remove(i);
            for mut p in perms(&rest) {
                p.insert(0, x.clone());
                out.push(p);
            }
        }
        out
    }
    fn merge(a: &[Step], b: &[Step]) -> Vec<Vec<Step>> {
        if a.is_empty() {
            return vec![b.to_vec()];
        }
        if b.is_empty() {
            return vec![a.to_vec()];
        }
        let mut out = vec![];
        for mut m in merge(&a[1..], b) {
            m.insert(0, a[0].clone());
            out.push(m);
        }
        for mut m in merge(a, &b[1..]) {
            m.insert(0, b[0].clone());
            out.push(m);
        }
        out
    }
    let mut out = vec![];
    for p in perms(others) {
        out.extend(merge(tags, &p));
    }
    out
}

pub fn sequences<T: Clone>(alpha: &[T], max_len: usize) -> Vec<Vec<T>> {
    let mut all: Vec<Vec<T>> = vec![vec![]];
    let mut frontier: Vec<Vec<T>> = vec![vec![]];
    for _ in 0..max_len {
        let mut next = vec![];
        for f in &frontier {
            for a in alpha {
                let mut n = f.clone();
                n.push(a.clone());
                next.push(n);
            }
        }
        all.extend(next.iter().cloned());
        frontier = next;
    }
    all
}

/// Value alphabet per value type (format mode: a few representative values incl. extremes).
pub fn values_for(vt: VT, thorough: bool) -> Vec<Val> {
    let d = Duration::new;
    match vt {
        VT::I64 => {
            let mut v = vec![Val::I64(0), Val::I64(-1), Val::I64(42), Val::I64(i64::MIN)];
            if thorough {
                v.extend([Val::I64(i64::MAX), Val::I64(-1000)]);
            }
            v
        }
        VT::I32 => vec![Val::I32(0), Val::I32(-7), Val::I32(i32::MIN), Val::I32(i32::MAX)],
        VT::U64 => vec![Val::U64(0), Val::U64(42), Val::U64(u64::MAX)],
        VT::U32 => vec![Val::U32(0), Val::U32(9), Val::U32(u32::MAX)],
        VT::F64 => {
            let mut v = vec![Val::F64(0.0), Val::F64(-0.0), Val::F64(1.5), Val::F64(1e300), Val::F64(5e-324)];
            if thorough {
                v.extend([Val::F64(-123.456), Val::F64(0.1 + 0.2), Val::F64(f64::MAX)]);
            }
            v
        }
        VT::Dur => vec![
            Val::Dur(d(0, 0)),
            Val::Dur(d(1, 500_000_000)),
            Val::Dur(d(0, 999_999)),
            // largest nanosecond count / largest millisecond count that fit in 64 bits, and one more
            Val::Dur(d(18_446_744_073, 709_551_615)),
            Val::Dur(d(18_446_744_073, 709_551_616)),
            Val::Dur(d(18_446_744_073_709_551, 615_999_999)),
            Val::Dur(d(18_446_744_073_709_551, 616_000_000)),
        ],
        VT::VU64 => vec![Val::VU64(vec![]), Val::VU64(vec![7]), Val::VU64(vec![0, u64::MAX]), Val::VU64(vec![1, 2, 3])],
        VT::VF64 => vec![Val::VF64(vec![]), Val::VF64(vec![-0.0]), Val::VF64(vec![1.5, 2.25]), Val::VF64(vec![0.1, 1e300, 3.0])],
        VT::VDur => vec![
            Val::VDur(vec![]),
            Val::VDur(vec![d(2, 0)]),
            Val::VDur(vec![d(0, 1), d(3, 0)]),
            Val::VDur(vec![d(1, 0), d(0, 0), d(0, 999_999_999)]),
            Val::VDur(vec![d(1, 0), d(18_446_744_073_709_551, 615_000_000)]),
            Val::VDur(vec![d(18_446_744_073, 709_551_615), d(0, 5)]),
        ],
        VT::None => vec![Val::None],
    }
}

pub struct Ctx<'a> {
    pub rep: &'a mut Report,
    pub mode: &'a str,
}

/// Shorten long strings in reports (cases with 1 MiB keys exist).
pub fn clip(s: &str) -> String {
    if s.len() <= 160 {
        return s.to_string();
    }
    let head: String = s.chars().take(60).collect();
    let tail: String = s.chars().rev().take(40).collect::<Vec<_>>().into_iter().rev().collect();
    format!("{}...({} bytes)...{}", head, s.len(), tail)
}

fn describe(cfg: &ClientCfg, row: &Row, form: Form, key: &str, val: &Val, steps: &[Step]) -> Json {
    let key = &clip(key);
    let cfg = &ClientCfg {
        prefix: clip(&cfg.prefix),
        tags: cfg.tags.iter().map(|(k, v)| (k.as_deref().map(clip), clip(v))).collect(),
        container: cfg.container.as_deref().map(clip),
    };
    let steps: Vec<Step> = steps
        .iter()
        .map(|s| match s {
            Step::Tag(k, v) => Step::Tag(clip(k), clip(v)),
            Step::TagValue(v) => Step::TagValue(clip(v)),
            Step::Container(c) => Step::Container(clip(c)),
            other => other.clone(),
        })
        .collect();
    let steps = &steps[..];
    Json::obj()
        .set("entry_point", row.name)
        .set("form", format!("{:?}", form))
        .set("prefix", &cfg.prefix)
        .set("default_tags", format!("{:?}", cfg.tags))
        .set("default_container", cfg.container.clone())
        .set("key", key)
        .set("value", format!("{:?}", val))
        .set("builder_calls", format!("{:?}", steps))
}

thread_local! {
    /// properties every violation found by `check_case` is tagged with in addition (set by the numeric engine)
    pub static ALSO: std::cell::RefCell<Vec<&'static str>> = const { std::cell::RefCell::new(Vec::new()) };
}

fn violation(rep: &mut Report, mut props: Vec<&'static str>, sig: &str, what: String, case: Json) {
    ALSO.with(|a| {
        for p in a.borrow().iter() {
            if !props.contains(p) {
                props.push(p);
            }
        }
    });
    let what = if what.len() > 3000 { format!("{} ...({} bytes)", what.chars().take(1500).collect::<String>(), what.len()) } else { what };
    rep.violation(Violation {
        props,
        sig: format!("fmt/{}", sig),
        what: format!("{} | case: {}", what, case.render()),
        replay: Json::obj().set("engine", "fmt").set("case", case),
    });
}

/// Run one call and judge the line handed to the sink. Returns the line if one was emitted.
pub fn check_case(rep: &mut Report, rig: &Rig, cfg: &ClientCfg, row: &Row, form: Form, key: &str, val: &Val, steps: &[Step]) -> Option<String> {
    if rep.full() {
        // the instance has failed already: no point in evaluating (and rendering) thousands more cases
        return None;
    }
    {
        let mut s = rig.sink.0.lock().unwrap();
        s.emits.clear();
        s.script.clear();
    }
    rig.handler.lock().unwrap().clear();
    rep.evaluations += 1;
    let res = panic::catch_unwind(AssertUnwindSafe(|| call(&rig.client, row, form, key, val, steps)));
    let case = || describe(cfg, row, form, key, val, steps);
    let res = match res {
        Ok(r) => r,
        Err(p) => {
            violation(rep, vec!["C20", "C01", "C04"], "panic", format!("the call panicked: {}", crate::common::payload_str(&*p)), case());
            return None;
        }
    };
    let emits = rig.sink.0.lock().unwrap().emits.clone();
    let handled = rig.handler.lock().unwrap().clone();
    let sec = reffmt::sections(cfg, steps);
    let nontrivial = !steps.is_empty() || !cfg.tags.is_empty() || cfg.container.is_some() || matches!(val, Val::VU64(_) | Val::VF64(_) | Val::VDur(_)) || cfg.prefix.ends_with('.');
    if nontrivial {
        rep.distinct(&format!("{:?}{:?}{:?}{:?}{:?}{:?}", cfg, row.name, form, key, val, steps));
    }
    match reffmt::values(row, val) {
        Err(()) => {
            // the value cannot be sent: nothing may reach the sink
            rep.flag("rejected-value");
            if !emits.is_empty() {
                let mut props = vec!["C01", "C03", "C20"];
                if matches!(val, Val::Dur(_) | Val::VDur(_)) && !matches!(val, Val::VDur(v) if v.is_empty()) {
                    // an out-of-range duration on the wire is a wrong number (C02) in an unfaithful line (C01)
                    props = vec!["C02", "C01", "C03", "C20"];
                }
                violation(rep, props, "invalid-value-sent", format!("a value that cannot be rendered as at least one in-range number was sent as {:?}", emits), case());
            }
            match (&res, form) {
                (Some(Err(f)), _) if f.kind == ErrorKind::InvalidInput => {}
                (None, Form::Send) => {
                    if handled.len() != 1 || handled[0].kind != ErrorKind::InvalidInput {
                        violation(rep, vec!["C03", "C20"], "invalid-value-not-reported", format!("quiet send of an invalid value reported {:?} to the handler (expected exactly one invalid-input error)", handled), case());
                    }
                }
                (other, _) => violation(rep, vec!["C03", "C20", "C02"], "invalid-value-not-reported", format!("invalid value was not reported as an invalid-input error: {:?}", other), case()),
            }
            None
        }
        Ok(vals) => {
            if emits.len() != 1 {
                violation(rep, vec!["C03", "C01"], "emit-count", format!("a valid call handed the sink {} strings: {:?} (result {:?})", emits.len(), emits, res), case());
                return None;
            }
            let line = emits[0].clone();
            let pieces = reffmt::expected(cfg, row, key, &vals, &sec);
            // the returned metric is the text the sink accepted (whatever that text is)
            if let Some(Ok(text)) = &res {
                if *text != line {
                    violation(rep, vec!["C03", "C01"], "returned-text-differs", format!("returned metric {:?} differs from the emitted line {:?}", text, line), case());
                }
            }
            if let Err(why) = reffmt::matches(&line, &pieces) {
                let props = classify(&line, cfg, row, key, &vals, &sec);
                violation(rep, props, "line-differs", format!("line {:?} is not the expected {:?}: {}", clip(&line), clip(&render(&pieces)), clip(&why)), case());
                return Some(line);
            }
            if let Some(Err(f)) = &res {
                violation(rep, vec!["C03"], "error-on-accept", format!("the sink accepted the line but the call returned {:?}", f), case());
            }
            if form == Form::Send && !handled.is_empty() {
                violation(rep, vec!["C03"], "handler-on-success", format!("quiet send succeeded but the handler was invoked: {:?}", handled), case());
            }
            // round trip when no supplied string contains a delimiter
            let strings_clean = !reffmt::has_delimiter(&cfg.prefix)
                && !reffmt::has_delimiter(key)
                && sec.tags.iter().all(|(k, v)| !k.as_deref().map(reffmt::has_delimiter).unwrap_or(false) && !reffmt::has_delimiter(v))
                && !sec.container.as_deref().map(reffmt::has_delimiter).unwrap_or(false);
            if strings_clean {
                rep.flag("round-trip-checked");
                if let Err(why) = reffmt::round_trip(&line, cfg, row, key, &vals, &sec) {
                    violation(rep, vec!["C01"], "round-trip", format!("parsing {:?} back does not yield what was supplied: {}", line, why), case());
                }
            } else {
                rep.flag("delimiter-bearing-strings");
            }
            // standalone constructor agreement
            if steps.is_empty() && cfg.tags.is_empty() && cfg.container.is_none() {
                if let Some(text) = api::standalone(row, &reffmt::full_prefix(&cfg.prefix), key, val) {
                    rep.flag("standalone-compared");
                    if text != line {
                        violation(rep, vec!["C01"], "standalone-differs", format!("standalone constructor gives {:?} but the client emitted {:?}", text, line), case());
                    }
                }
            }
            if sec.rate.is_some() {
                rep.flag("rate-section");
            }
            if sec.timestamp.is_some() && sec.container.is_some() && !sec.tags.is_empty() && sec.rate.is_some() {
                rep.flag("all-four-sections");
            }
            Some(line)
        }
    }
}

fn render(p: &[Piece]) -> String {
    p.iter()
        .map(|x| match x {
            Piece::Lit(s) => s.clone(),
            Piece::Float(f) => format!("<{:e}>", f),
        })
        .collect()
}

/// Which property does a wrong line contradict: C04 if the tag / container sections are wrong,
/// C01 for everything else (and for lines that cannot be taken apart at all).
fn classify(line: &str, cfg: &ClientCfg, row: &Row, key: &str, vals: &[Piece], sec: &Sections) -> Vec<&'static str> {
    let has_defaults = !cfg.tags.is_empty() || cfg.container.is_some();
    let Ok(p) = reffmt::parse(line) else {
        return if has_defaults { vec!["C01", "C04"] } else { vec!["C01"] };
    };
    let want_tags = if sec.tags.is_empty() { None } else { Some(sec.tags.clone()) };
    let deco_wrong = p.tags != want_tags || p.container != sec.container;
    let mut no_deco = sec.clone();
    no_deco.tags = vec![];
    no_deco.container = None;
    let mut stripped = p.clone();
    stripped.tags = None;
    stripped.container = None;
    let core_pieces = reffmt::expected(cfg, row, key, vals, &no_deco);
    let core_line = {
        let mut s = format!("{}:{}|{}", stripped.name, stripped.values.join(":"), stripped.type_code);
        if let Some(r) = &stripped.rate {
            s.push_str(&format!("|@{}", r));
        }
        if let Some(t) = &stripped.timestamp {
            s.push_str(&format!("|T{}", t));
        }
        s
    };
    let core_wrong = reffmt::matches(&core_line, &core_pieces).is_err();
    let mut props = vec![];
    if core_wrong || !deco_wrong {
        props.push("C01");
    }
    if deco_wrong {
        props.push("C04");
        if !props.contains(&"C01") {
            props.push("C01");
        }
    }
    props
}

fn tag_alpha(n: usize) -> Vec<Step> {
    let all = vec![
        Step::Tag("k".into(), "v".into()),
        Step::TagValue("b".into()),
        // a bare tag with an empty value (e.g. built from an empty configuration string)
        Step::TagValue("".into()),
        Step::Tag("é".into(), "ü".into()),
    ];
    all[..n].to_vec()
}

fn form_of(s: &str) -> Form {
    match s {
        "plain" => Form::Plain,
        "send" => Form::Send,
        _ => Form::TrySend,
    }
}

/// C01: one (entry point, form) over prefixes x keys x values x sections x orders.
pub fn run_c01(spec: &crate::Spec) -> Report {
    let mut rep = Report::new(&spec.raw);
    let thorough = spec.str("tier", "quick") == "thorough";
    let row = &ROWS[spec.usize("row", 0)];
    let form = form_of(&spec.str("form", "try"));
    let dirty = spec.usize("dirty", 0) == 1;
    // strings that begin or end with white space (the line's last component ends in it)
    let ws = spec.usize("ws", 0) == 1;
    let prefixes: Vec<&str> = if dirty {
        vec!["a:b", "a|b#c", "x,y@z\nw"]
    } else if ws {
        vec!["p", " p "]
    } else if thorough {
        vec!["", "p", "p.", "p..", ".", "..", "a.b", "é", "p q"]
    } else {
        vec!["", "p", "p..", ".", "a.b."]
    };
    let keys: Vec<&str> = if dirty {
        vec!["k:1", "k|c", "k\n"]
    } else if ws {
        vec!["k", "k "]
    } else if thorough {
        vec!["k", "", "a.b", "ключ", "k k"]
    } else {
        vec!["k", "a.b"]
    };
    let tags_alpha: Vec<Step> = if dirty {
        vec![Step::Tag("t:1".into(), "v,2".into()), Step::TagValue("#b|".into())]
    } else if ws {
        vec![Step::Tag("k".into(), "v ".into()), Step::TagValue("b\t".into()), Step::TagValue(" ".into()), Step::Tag(" k".into(), "v\r\n".into())]
    } else {
        tag_alpha(if thorough { 4 } else { 3 })
    };
    let tag_lists = sequences(&tags_alpha, if thorough { 3 } else { 2 });
    let rates: Vec<Option<f64>> = if thorough { vec![None, Some(0.5), Some(1.0), Some(1e-7), Some(0.0)] } else { vec![None, Some(0.5), Some(1.0), Some(1e-7)] };
    let containers: Vec<Option<&str>> = if dirty {
        vec![None, Some("c|1")]
    } else if ws {
        vec![None, Some("c1 "), Some(" ")]
    } else {
        vec![None, Some("c1")]
    };
    let stamps: Vec<Option<u64>> = if thorough { vec![None, Some(0), Some(1), Some(u64::MAX)] } else { vec![None, Some(0), Some(u64::MAX)] };
    let vals = values_for(row.vt, thorough);
    for prefix in &prefixes {
        let cfg = ClientCfg {
            prefix: prefix.to_string(),
            ..Default::default()
        };
        let rig = api::build(&cfg);
        for key in &keys {
            for val in &vals {
                if form == Form::Plain {
                    let l = check_case(&mut rep, &rig, &cfg, row, form, key, val, &[]);
                    if rep.samples.is_empty() {
                        if let Some(l) = l {
                            rep.sample(describe(&cfg, row, form, key, val, &[]).set("line", l));
                        }
                    }
                    continue;
                }
                for tl in &tag_lists {
                    for r in &rates {
                        for c in &containers {
                            for t in &stamps {
                                let mut others = vec![];
                                if let Some(r) = r {
                                    others.push(Step::Rate(*r));
                                }
                                if let Some(c) = c {
                                    others.push(Step::Container(c.to_string()));
                                }
                                if let Some(t) = t {
                                    others.push(Step::Timestamp(*t));
                                }
                                for steps in orders(tl, &others) {
                                    let l = check_case(&mut rep, &rig, &cfg, row, form, key, val, &steps);
                                    if rep.samples.len() < 2 && steps.len() >= 4 {
                                        if let Some(l) = l {
                                            rep.sample(describe(&cfg, row, form, key, val, &steps).set("line", l));
                                        }
                                    }
                                    if rep.full() {
                                        return rep;
                                    }
                                }
                            }
                        }
                    }
                }
            }
        }
    }
    rep
}

/// C04: client configurations with default tags / container x one entry point x forms.
pub fn run_c04(spec: &crate::Spec) -> Report {
    let mut rep = Report::new(&spec.raw);
    let thorough = spec.str("tier", "quick") == "thorough";
    let row = &ROWS[spec.usize("row", 0)];
    let dtags: Vec<(Option<String>, String)> = vec![(Some("dk".into()), "dv".into()), (None, "db".into()), (None, "".into()), (Some("dz".into()), "".into())];
    let dlists = sequences(&dtags[..if thorough { 4 } else { 3 }], if thorough { 3 } else { 2 });
    // per-call tags, one of which reuses the key of a default tag with another value
    let mut call_tags = tag_alpha(if thorough { 4 } else { 3 });
    call_tags.push(Step::Tag("dk".into(), "pv".into()));
    let tag_lists = sequences(&call_tags, 2);
    let vals = values_for(row.vt, false);
    let val = vals.iter().find(|v| reffmt::values(row, v).is_ok()).unwrap().clone();
    let packed = vals.iter().rev().find(|v| reffmt::values(row, v).is_ok()).unwrap().clone();
    for prefix in ["p", ""] {
        for dl in &dlists {
            for dc in [None, Some("dc"), Some("default-container-id"), Some("")] {
                let cfg = ClientCfg {
                    prefix: prefix.to_string(),
                    tags: dl.clone(),
                    container: dc.map(|s| s.to_string()),
                };
                let rig = api::build(&cfg);
                if !cfg.tags.is_empty() {
                    rep.flag("default-tags");
                }
                if cfg.container.is_some() {
                    rep.flag("default-container");
                }
                for v in [&val, &packed] {
                    for form in [Form::Plain, Form::TrySend, Form::Send] {
                        if form == Form::Plain {
                            check_case(&mut rep, &rig, &cfg, row, form, "k", v, &[]);
                            continue;
                        }
                        for tl in &tag_lists {
                            // per-call container ids: as long as, shorter than (also empty) and longer
                            // than the default, and one replaced by a second per-call id
                            for pc in [None, Some("pc"), Some(""), Some("x"), Some("a-long-per-call-container"), Some("TWICE")] {
                                let mut others = vec![];
                                if let Some(pc) = pc {
                                    if pc == "TWICE" {
                                        others.push(Step::Container("first-per-call-id".to_string()));
                                        others.push(Step::Container("2nd".to_string()));
                                    } else {
                                        others.push(Step::Container(pc.to_string()));
                                    }
                                    rep.flag("per-call-container");
                                }
                                if thorough {
                                    others.push(Step::Rate(0.5));
                                }
                                for steps in orders(tl, &others) {
                                    let l = check_case(&mut rep, &rig, &cfg, row, form, "k", v, &steps);
                                    // "for that call only": the next call on the same client shows the defaults again
                                    check_case(&mut rep, &rig, &cfg, row, Form::TrySend, "k2", &val, &[]);
                                    if rep.samples.len() < 2 && !cfg.tags.is_empty() && steps.len() >= 2 {
                                        if let Some(l) = l {
                                            rep.sample(describe(&cfg, row, form, "k", v, &steps).set("line", l));
                                        }
                                    }
                                    if rep.full() {
                                        return rep;
                                    }
                                }
                            }
                        }
                    }
                }
            }
        }
    }
    let _ = Kind::Counter;
    rep
}
