//! seqx/num: boundary-value alphabets for every numeric type through every entry point that
//! accepts it (C02).
use crate::api::{self, ClientCfg, Form, Row, Step, Val, ROWS, VT};
use crate::common::Report;
use crate::fmt::{check_case, ALSO};
use crate::json::Json;
use std::time::Duration;

fn int_alphabet(min: i128, max: i128) -> Vec<i128> {
    let mut v: Vec<i128> = vec![0, 1, -1, min, min + 1, min + 2, max, max - 1, max - 2];
    for k in 0..=64u32 {
        let p = 1i128 << k;
        for d in [-1, 0, 1] {
            v.push(p + d);
            v.push(-(p + d));
        }
    }
    let mut p: i128 = 1;
    for _ in 0..20 {
        for d in [-1, 0, 1] {
            v.push(p + d);
            v.push(-(p + d));
        }
        p *= 10;
    }
    v.retain(|x| *x >= min && *x <= max);
    v.sort();
    v.dedup();
    v
}

pub fn float_alphabet() -> Vec<f64> {
    let mants: [u64; 9] = [0, 1, 2, (1 << 52) - 1, 1 << 51, (1 << 51) + 1, (1 << 51) - 1, 0x5_5555_5555_5555, 0xA_AAAA_AAAA_AAAA];
    let mut v = vec![];
    for e in 0..=2046u64 {
        for m in mants {
            for s in [0u64, 1] {
                v.push(f64::from_bits((s << 63) | (e << 52) | m));
            }
        }
    }
    // powers of ten and their neighbours
    for k in -324..=308 {
        if let Ok(x) = format!("1e{}", k).parse::<f64>() {
            for y in [x, f64::from_bits(x.to_bits().wrapping_add(1)), f64::from_bits(x.to_bits().wrapping_sub(1))] {
                if y.is_finite() {
                    v.push(y);
                    v.push(-y);
                }
            }
        }
    }
    v.extend([0.1, 0.2, 0.1 + 0.2, 1.0 / 3.0, 2.5e-5, 123456789.123456789, 9007199254740992.0, 9007199254740993.0, 1e21, 1e22, 1e23, 5e-324, f64::MAX, f64::MIN_POSITIVE]);
    v
}

fn cfg() -> ClientCfg {
    ClientCfg {
        prefix: "p".into(),
        ..Default::default()
    }
}

fn rows_with(vt: VT) -> Vec<&'static Row> {
    ROWS.iter().filter(|r| r.vt == vt).collect()
}

pub fn run(spec: &crate::Spec) -> Report {
    let mut rep = Report::new(&spec.raw);
    ALSO.with(|a| *a.borrow_mut() = vec!["C02"]);
    let cfg = cfg();
    let rig = api::build(&cfg);
    let forms = [Form::Plain, Form::TrySend, Form::Send];
    match spec.str("part", "int").as_str() {
        "int" => {
            for (vt, min, max) in [
                (VT::I64, i64::MIN as i128, i64::MAX as i128),
                (VT::I32, i32::MIN as i128, i32::MAX as i128),
                (VT::U64, 0, u64::MAX as i128),
                (VT::U32, 0, u32::MAX as i128),
            ] {
                let alpha = int_alphabet(min, max);
                rep.extra(&format!("alphabet_{:?}", vt), alpha.len());
                for row in rows_with(vt) {
                    for x in &alpha {
                        let val = match vt {
                            VT::I64 => Val::I64(*x as i64),
                            VT::I32 => Val::I32(*x as i32),
                            VT::U64 => Val::U64(*x as u64),
                            _ => Val::U32(*x as u32),
                        };
                        for form in forms {
                            check_case(&mut rep, &rig, &cfg, row, form, "k", &val, &[]);
                        }
                        rep.distinct(&(row.name, *x));
                    }
                }
                if vt == VT::U64 {
                    // packed lists keep length and order; timestamps are u64 too
                    for row in rows_with(VT::VU64) {
                        for w in alpha.windows(3) {
                            let val = Val::VU64(w.iter().map(|x| *x as u64).collect());
                            check_case(&mut rep, &rig, &cfg, row, Form::TrySend, "k", &val, &[]);
                            rep.distinct(&(row.name, w.to_vec()));
                        }
                    }
                    for x in &alpha {
                        check_case(&mut rep, &rig, &cfg, &ROWS[0], Form::TrySend, "k", &Val::I64(1), &[Step::Timestamp(*x as u64)]);
                    }
                }
            }
            rep.sample(Json::obj().set("type", "i64").set("values", int_alphabet(i64::MIN as i128, i64::MAX as i128).iter().take(12).map(|x| x.to_string()).collect::<Vec<_>>()));
        }
        "float" => {
            let all = float_alphabet();
            let (i, n) = (spec.usize("chunk", 0), spec.usize("of", 1));
            rep.extra("alphabet_f64", all.len());
            for (j, f) in all.iter().enumerate() {
                if j % n != i {
                    continue;
                }
                rep.distinct(&f.to_bits());
                for row in rows_with(VT::F64) {
                    for form in forms {
                        check_case(&mut rep, &rig, &cfg, row, form, "k", &Val::F64(*f), &[]);
                    }
                }
                for row in rows_with(VT::VF64) {
                    check_case(&mut rep, &rig, &cfg, row, Form::TrySend, "k", &Val::VF64(vec![1.0, *f, -2.5]), &[]);
                    check_case(&mut rep, &rig, &cfg, row, Form::Plain, "k", &Val::VF64(vec![*f]), &[]);
                }
                // as a sampling rate
                check_case(&mut rep, &rig, &cfg, &ROWS[0], Form::TrySend, "k", &Val::I64(1), &[Step::Rate(*f)]);
                check_case(&mut rep, &rig, &cfg, &ROWS[18], Form::Send, "k", &Val::F64(1.0), &[Step::Rate(*f), Step::TagValue("t".into())]);
                if rep.full() {
                    break;
                }
            }
            rep.sample(Json::obj().set("type", "f64").set("bit_patterns", all.iter().skip(i).step_by(all.len() / 8 + 1).map(|f| format!("{:016x}", f.to_bits())).collect::<Vec<_>>()));
        }
        _ => {
            // durations around both overflow thresholds
            let mut durs: Vec<Duration> = vec![Duration::new(0, 0), Duration::new(0, 1), Duration::new(0, 999_999), Duration::new(0, 1_000_000), Duration::new(0, 999_999_999), Duration::new(1, 0), Duration::MAX, Duration::new(u64::MAX, 0)];
            let grid = |secs0: u64, nanos: &[u32], durs: &mut Vec<Duration>| {
                for ds in -3i64..=3 {
                    let s = secs0.wrapping_add(ds as u64);
                    for n in nanos {
                        for dn in -3i64..=3 {
                            let nn = *n as i64 + dn;
                            if (0..1_000_000_000).contains(&nn) {
                                durs.push(Duration::new(s, nn as u32));
                            }
                        }
                    }
                }
            };
            // milliseconds: u64::MAX ms = 18446744073709551 s + 615 ms
            grid(18_446_744_073_709_551, &[0, 615_000_000, 615_999_999, 616_000_000, 999_999_999], &mut durs);
            // nanoseconds: u64::MAX ns = 18446744073 s + 709551615 ns
            grid(18_446_744_073, &[0, 709_551_615, 709_551_616, 999_999_999], &mut durs);
            rep.extra("alphabet_duration", durs.len());
            for d in &durs {
                rep.distinct(&(d.as_secs(), d.subsec_nanos()));
                for row in rows_with(VT::Dur) {
                    for form in forms {
                        check_case(&mut rep, &rig, &cfg, row, form, "k", &Val::Dur(*d), &[]);
                    }
                }
                for row in rows_with(VT::VDur) {
                    // the element at every index of lists of length 1..4
                    for len in 1..=4 {
                        for at in 0..len {
                            let mut l = vec![Duration::new(1, 0); len];
                            l[at] = *d;
                            check_case(&mut rep, &rig, &cfg, row, Form::TrySend, "k", &Val::VDur(l.clone()), &[]);
                            if len == 2 {
                                check_case(&mut rep, &rig, &cfg, row, Form::Send, "k", &Val::VDur(l), &[Step::Tag("a".into(), "b".into())]);
                            }
                        }
                    }
                }
            }
            rep.sample(Json::obj().set("type", "Duration").set("values", durs.iter().skip(8).step_by(97).map(|d| format!("{}s+{}ns", d.as_secs(), d.subsec_nanos())).collect::<Vec<_>>()));
        }
    }
    ALSO.with(|a| a.borrow_mut().clear());
    rep
}
