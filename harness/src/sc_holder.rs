//! sched/holder: all interleavings of set / get / is_set on one real
//! `cadence_macros::SingletonHolder` (C18), judged by a write-once specification and by the
//! vector-clock race check on the holder's cell.
use crate::common::{hash_of, Report};
use crate::explore::{self, Bounds, Scenario, Verdict};
use crate::rt::{self, EndState};
use crate::wmodel::Breach;
use cadence_macros::SingletonHolder;
use std::sync::atomic::{AtomicUsize, Ordering};
use std::sync::{Arc, Mutex};

#[derive(Debug)]
pub struct Payload {
    id: u64,
    body: [u64; 6],
    sum: u64,
}

impl Payload {
    fn new(id: u64) -> Payload {
        let body = [id, id * 3 + 1, id * 5 + 2, id * 7 + 3, !id, id << 17];
        let sum = body.iter().fold(0u64, |a, b| a.wrapping_mul(31).wrapping_add(*b));
        Payload { id, body, sum }
    }
    fn intact(&self) -> bool {
        let p = Payload::new(self.id);
        p.body == self.body && p.sum == self.sum
    }
}

#[derive(Clone, Copy, Debug, PartialEq, Eq)]
pub enum HOp {
    Set(u64),
    /// the same call made from a destructor that runs while the thread unwinds from a panic
    SetUnwinding(u64),
    Get,
    IsSet,
}

#[derive(Clone, Debug)]
enum Seen {
    SetReturned,
    /// get: None, or Some(address of the Arc's payload, id, intact)
    Got(Option<(usize, u64, bool)>),
    IsSet(bool),
}

#[derive(Clone, Debug)]
struct Rec {
    thread: usize,
    op: HOp,
    call: usize,
    ret: usize,
    seen: Seen,
}

pub struct HolderScn {
    /// program: one op list per thread
    pub prog: Vec<Vec<HOp>>,
    pub text: String,
}

pub fn parse_prog(s: &str) -> Vec<Vec<HOp>> {
    s.split('.')
        .map(|t| {
            let b = t.as_bytes();
            let mut ops = vec![];
            let mut i = 0;
            while i < b.len() {
                match b[i] {
                    b'S' => {
                        ops.push(HOp::Set((b[i + 1] - b'0') as u64));
                        i += 2;
                    }
                    b'U' => {
                        ops.push(HOp::SetUnwinding((b[i + 1] - b'0') as u64));
                        i += 2;
                    }
                    b'G' => {
                        ops.push(HOp::Get);
                        i += 1;
                    }
                    b'I' => {
                        ops.push(HOp::IsSet);
                        i += 1;
                    }
                    _ => i += 1,
                }
            }
            ops
        })
        .collect()
}

fn do_op(h: &SingletonHolder<Payload>, seq: &AtomicUsize, log: &Mutex<Vec<Rec>>, thread: usize, op: HOp) {
    let call = seq.fetch_add(1, Ordering::SeqCst);
    let seen = match op {
        HOp::Set(v) => {
            h.set(Payload::new(v));
            Seen::SetReturned
        }
        HOp::SetUnwinding(v) => {
            struct OnDrop<'a>(&'a SingletonHolder<Payload>, u64);
            impl Drop for OnDrop<'_> {
                fn drop(&mut self) {
                    self.0.set(Payload::new(self.1));
                }
            }
            let _ = std::panic::catch_unwind(std::panic::AssertUnwindSafe(|| {
                let _g = OnDrop(h, v);
                std::panic::panic_any(rt::ScriptedPanic("a panic during which a destructor sets the holder".into()));
            }));
            Seen::SetReturned
        }
        HOp::Get => Seen::Got(h.get().map(|a| (Arc::as_ptr(&a) as usize, a.id, a.intact()))),
        HOp::IsSet => Seen::IsSet(h.is_set()),
    };
    let ret = seq.fetch_add(1, Ordering::SeqCst);
    // for the specification it is a set like any other
    let op = match op {
        HOp::SetUnwinding(v) => HOp::Set(v),
        o => o,
    };
    log.lock().unwrap().push(Rec {
        thread,
        op,
        call,
        ret,
        seen,
    });
}

impl Scenario for HolderScn {
    fn name(&self) -> String {
        format!("holder prog={}", self.text)
    }

    fn make(&self) -> (Box<dyn FnOnce() + Send + 'static>, Box<dyn FnOnce(&EndState) -> Verdict + Send + 'static>) {
        let holder: Arc<SingletonHolder<Payload>> = Arc::new(SingletonHolder::new());
        let seq = Arc::new(AtomicUsize::new(0));
        let log: Arc<Mutex<Vec<Rec>>> = Arc::new(Mutex::new(vec![]));
        let prog = self.prog.clone();
        let (h2, s2, l2) = (holder.clone(), seq.clone(), log.clone());
        let body = Box::new(move || {
            let mut tids = vec![];
            for (ti, ops) in prog.iter().enumerate() {
                let (h, s, l, ops) = (h2.clone(), s2.clone(), l2.clone(), ops.clone());
                tids.push(rt::spawn("t", move || {
                    for op in ops {
                        do_op(&h, &s, &l, ti + 1, op);
                    }
                }));
            }
            for t in tids {
                rt::join(t);
            }
            do_op(&h2, &s2, &l2, 0, HOp::Get);
            do_op(&h2, &s2, &l2, 0, HOp::IsSet);
        });
        let judge = Box::new(move |end: &EndState| judge(end, &log.lock().unwrap()));
        (body, judge)
    }
}

fn breach(out: &mut Vec<Breach>, sig: &str, what: String) {
    out.push(Breach {
        props: vec!["C18"],
        sig: sig.into(),
        what,
    });
}

fn judge(end: &EndState, log: &[Rec]) -> Verdict {
    let mut out = vec![];
    let mut flags: Vec<&'static str> = vec![];
    for r in &end.races {
        breach(&mut out, "data-race", format!("data race: {}", r.what));
    }
    for (t, p) in &end.panics {
        breach(&mut out, "panic", format!("thread {} panicked: {}", t, p));
    }
    if end.deadlock || end.horizon {
        breach(&mut out, "stuck", format!("execution did not finish: {:?}", end.unfinished()));
    }
    let sets: Vec<&Rec> = log.iter().filter(|r| matches!(r.op, HOp::Set(_))).collect();
    let somes: Vec<(&Rec, (usize, u64, bool))> = log
        .iter()
        .filter_map(|r| match &r.seen {
            Seen::Got(Some(x)) => Some((r, *x)),
            _ => None,
        })
        .collect();
    // (2) one instance, fully constructed
    if let Some((_, first)) = somes.first() {
        for (r, x) in &somes {
            if x.0 != first.0 || x.1 != first.1 {
                breach(&mut out, "two-winners", format!("get on thread {} returned instance {:x}/id {} but another get returned {:x}/id {}", r.thread, x.0, x.1, first.0, first.1));
            }
            if !x.2 {
                breach(&mut out, "torn-payload", format!("get on thread {} returned a client that is not fully constructed (id {})", r.thread, x.1));
            }
        }
    }
    // (3) the winner is a set that did not begin after another set had returned
    let winner_id = somes.first().map(|s| s.1 .1);
    let final_get = log.iter().rev().find(|r| r.thread == 0 && r.op == HOp::Get);
    if !sets.is_empty() {
        match final_get.map(|r| &r.seen) {
            Some(Seen::Got(Some(_))) => {}
            _ => breach(&mut out, "final-unset", "a set was called and returned, but the final get reports 'not set'".into()),
        }
        if let Some(Seen::IsSet(false)) = log.iter().rev().find(|r| r.thread == 0 && r.op == HOp::IsSet).map(|r| &r.seen) {
            breach(&mut out, "final-unset", "a set was called and returned, but the final is_set reports false".into());
        }
    } else if winner_id.is_some() {
        breach(&mut out, "set-from-nowhere", "get returned a value although set was never called".into());
    }
    if let Some(w) = winner_id {
        let wsets: Vec<&&Rec> = sets.iter().filter(|r| r.op == HOp::Set(w)).collect();
        if wsets.is_empty() {
            breach(&mut out, "set-from-nowhere", format!("get returned id {} which no set supplied", w));
        } else {
            let legit = wsets.iter().any(|ws| !sets.iter().any(|o| o.ret < ws.call));
            if !legit {
                breach(&mut out, "later-set-won", format!("the stored value {} comes from a set that began after another set had already returned (first set did not win)", w));
            }
            // (5) nobody observes 'set' before the winning set began
            let first_call = wsets.iter().map(|r| r.call).min().unwrap();
            for r in log {
                let observed = matches!(r.seen, Seen::Got(Some(_)) | Seen::IsSet(true));
                if observed && r.ret < first_call {
                    breach(&mut out, "set-before-set", format!("thread {} observed 'set' before the winning set began", r.thread));
                }
            }
        }
    }
    // (4) monotone: once observed set (or the winning set returned), later operations observe it
    for a in log {
        // a returned `set` counts as "the set has completed" only if it is known to be the winning
        // one: its value is the stored value and no other set supplied the same value (a losing set
        // may return while the winner is still initialising, and reads may then still say 'not set')
        let a_is_the_winner = matches!(a.op, HOp::Set(v) if Some(v) == winner_id && sets.iter().filter(|s| s.op == HOp::Set(v)).count() == 1);
        let a_observed = matches!(a.seen, Seen::Got(Some(_)) | Seen::IsSet(true)) || a_is_the_winner;
        if !a_observed {
            continue;
        }
        for b in log {
            if b.call > a.ret {
                let unset = matches!(b.seen, Seen::Got(None) | Seen::IsSet(false));
                if unset {
                    breach(
                        &mut out,
                        "unset-after-set",
                        format!("{:?} on thread {} reported 'not set' although {:?} on thread {} had already observed/completed the set before it started", b.op, b.thread, a.op, a.thread),
                    );
                }
            }
        }
    }
    // coverage facts
    let loading_overlap = log.iter().any(|r| matches!(r.seen, Seen::Got(None) | Seen::IsSet(false)) && sets.iter().any(|s| s.call < r.call && r.ret < s.ret));
    if loading_overlap {
        flags.push("reader-overlapped-a-set");
    }
    if sets.len() >= 2 && sets.iter().any(|a| sets.iter().any(|b| a.thread != b.thread && a.call < b.call && b.call < a.ret)) {
        flags.push("two-sets-overlapped");
    }
    if somes.iter().any(|(r, _)| r.thread != 0) {
        flags.push("concurrent-get-saw-value");
    }
    let mut sig: Vec<(usize, String)> = log.iter().map(|r| (r.thread, format!("{:?}{:?}", r.op, match &r.seen { Seen::Got(Some(x)) => Seen::Got(Some((0, x.1, x.2))), o => o.clone() }))).collect();
    sig.sort();
    let summary = {
        let mut l: Vec<&Rec> = log.iter().collect();
        l.sort_by_key(|r| r.call);
        l.iter()
            .map(|r| format!("t{}:{:?}[{}..{}]={}", r.thread, r.op, r.call, r.ret, match &r.seen { Seen::SetReturned => "()".to_string(), Seen::Got(None) => "None".into(), Seen::Got(Some(x)) => format!("Some(id{})", x.1), Seen::IsSet(b) => b.to_string() }))
            .collect::<Vec<_>>()
            .join(" ")
    };
    Verdict {
        breaches: out,
        outcome: hash_of(&(sig, end.races.len())),
        flags,
        summary,
    }
}

pub fn scenario(text: &str) -> HolderScn {
    HolderScn {
        prog: parse_prog(text),
        text: text.to_string(),
    }
}

pub fn run(spec: &crate::Spec) -> Report {
    let mut rep = Report::new(&spec.raw);
    let scn = scenario(&spec.str("prog", "S1.G"));
    let b = Bounds {
        preemptions: spec.opt_usize("D").or(spec.opt_usize("P")).unwrap_or(usize::MAX),
        // one spurious failure of a weak compare-exchange per execution
        deviations: 1,
        max_execs: spec.usize("max", 5_000_000) as u64,
        delay: spec.opt_usize("D").is_some(),
    };
    explore::check(&mut rep, &scn, b, &spec.raw);
    rep.extra("preemption_bound_completed", if b.preemptions == usize::MAX { 99 } else { b.preemptions });
    rep
}

/// All purely sequential histories up to `depth` operations over {set(1), set(2), get, is_set}
/// (one model thread; the final get / is_set of the main thread is appended by the scenario).
pub fn run_seq(spec: &crate::Spec) -> Report {
    let mut rep = Report::new(&spec.raw);
    let depth = spec.usize("depth", 4);
    let alpha = ["S1", "S2", "G", "I", "U3"];
    let mut progs: Vec<String> = vec![String::new()];
    let mut frontier: Vec<String> = vec![String::new()];
    for _ in 0..depth {
        let mut next = vec![];
        for f in &frontier {
            for a in alpha {
                next.push(format!("{}{}", f, a));
            }
        }
        progs.extend(next.iter().cloned());
        frontier = next;
    }
    let b = Bounds {
        preemptions: usize::MAX,
        deviations: 1,
        max_execs: 1000,
        delay: false,
    };
    for p in progs {
        if p.is_empty() {
            continue;
        }
        let scn = scenario(&p);
        explore::check(&mut rep, &scn, b, &format!("holder:prog={}", p));
        if rep.full() {
            break;
        }
    }
    rep
}
