//! Stateless depth-first exploration of all schedules of a scenario, with a preemption bound
//! and a separate budget for data choices (environment answers).
use crate::common::{Report, Violation};
use crate::json::Json;
use crate::rt::{self, EndState, PointRec, RunCfg};
use crate::wmodel::Breach;
use std::collections::HashSet;

/// What a scenario's judge returns for one complete execution.
pub struct Verdict {
    pub breaches: Vec<Breach>,
    /// hash of the observable outcome (for counting distinct outcomes)
    pub outcome: u64,
    /// coverage facts reached in this execution
    pub flags: Vec<&'static str>,
    /// human readable summary of what was observed
    pub summary: String,
}

/// One execution = a fresh instance of the program under test.
pub trait Scenario {
    fn name(&self) -> String;
    fn make(&self) -> (Box<dyn FnOnce() + Send + 'static>, Box<dyn FnOnce(&EndState) -> Verdict + Send + 'static>);
    fn max_steps(&self) -> usize {
        5000
    }
    /// Should clones, drops and count reads of the shim's `Arc` be scheduling points?
    fn arc_points(&self) -> bool {
        false
    }
    /// Should there be a scheduling point right after every unlock, send, store and read-modify-write?
    fn post_points(&self) -> bool {
        false
    }
}

#[derive(Clone, Copy)]
pub struct Bounds {
    /// maximum number of preemptions (usize::MAX = unbounded)
    pub preemptions: usize,
    /// maximum number of non-default data choices
    pub deviations: usize,
    /// stop after this many executions (reported as not exhaustive)
    pub max_execs: u64,
    /// delay bounding instead of preemption bounding: `preemptions` then counts every departure
    /// from the canonical scheduler (lowest thread id first), for programs with many threads
    pub delay: bool,
}

pub struct Explored {
    pub execs: u64,
    pub steps: u64,
    pub choice_points: u64,
    pub max_points: usize,
    pub outcomes: HashSet<u64>,
    pub complete: bool,
    pub first_violation: Option<(Vec<usize>, Vec<u64>, Vec<Breach>, String)>,
    pub error: Option<String>,
    pub flags: HashSet<&'static str>,
    pub sample: Option<String>,
}

thread_local! {
    static DELAY: std::cell::Cell<bool> = const { std::cell::Cell::new(false) };
}

fn run(scn: &dyn Scenario, prefix: Vec<usize>, sigs: Vec<u64>, keep_trace: bool) -> rt::Outcome<Verdict> {
    let (body, judge) = scn.make();
    rt::run_one(
        RunCfg {
            prefix,
            prefix_sigs: sigs,
            max_steps: scn.max_steps(),
            keep_trace,
            delay: DELAY.with(|d| d.get()),
            arc_points: scn.arc_points(),
            post_points: scn.post_points(),
        },
        body,
        judge,
    )
}

/// Next choice prefix in depth-first order within the bounds, or None when the tree is exhausted.
fn next_prefix(pts: &[PointRec], b: &Bounds) -> Option<Vec<usize>> {
    let mut pre = vec![(0usize, 0usize); pts.len() + 1];
    for (i, p) in pts.iter().enumerate() {
        let (a, d) = pre[i];
        let pc = if p.preempt[p.chosen] { 1 } else { 0 };
        let dc = if p.data && p.chosen > 0 { 1 } else { 0 };
        pre[i + 1] = (a + pc, d + dc);
    }
    for i in (0..pts.len()).rev() {
        let p = &pts[i];
        let mut alt = p.chosen + 1;
        while alt < p.n {
            let pc = pre[i].0 + if p.preempt[alt] { 1 } else { 0 };
            let dc = pre[i].1 + if p.data { 1 } else { 0 };
            if pc <= b.preemptions && dc <= b.deviations {
                break;
            }
            alt += 1;
        }
        if alt < p.n {
            let mut np: Vec<usize> = pts[..i].iter().map(|q| q.chosen).collect();
            np.push(alt);
            return Some(np);
        }
    }
    None
}

pub fn explore(scn: &dyn Scenario, b: Bounds, stop_at_first: bool) -> Explored {
    DELAY.with(|d| d.set(b.delay));
    let mut ex = Explored {
        execs: 0,
        steps: 0,
        choice_points: 0,
        max_points: 0,
        outcomes: HashSet::new(),
        complete: false,
        first_violation: None,
        error: None,
        flags: HashSet::new(),
        sample: None,
    };
    // warm-up: code under test may initialise per-thread or process-wide state lazily on first use
    // (thread-locals of the pooled threads, statics); that happens once, here, and is not part of
    // any compared execution
    let w = run(scn, vec![], vec![], false);
    if w.watchdog {
        ex.error = Some(format!("{}: watchdog: a model thread is blocked outside the scheduler", scn.name()));
        return ex;
    }
    // determinism: the default schedule, run twice, must behave identically
    let a = run(scn, vec![], vec![], true);
    let b2 = run(scn, vec![], vec![], true);
    if a.watchdog || b2.watchdog {
        ex.error = Some(format!("{}: watchdog: a model thread is blocked outside the scheduler", scn.name()));
        return ex;
    }
    let (va, vb) = (a.verdict.as_ref().unwrap(), b2.verdict.as_ref().unwrap());
    if a.trace_hash != b2.trace_hash || va.outcome != vb.outcome || a.points.len() != b2.points.len() {
        ex.error = Some(format!(
            "{}: nondeterminism: the default schedule run twice differs (trace {:x}/{:x}, outcome {:x}/{:x})\n{:?}\n{:?}",
            scn.name(),
            a.trace_hash,
            b2.trace_hash,
            va.outcome,
            vb.outcome,
            a.trace,
            b2.trace
        ));
        return ex;
    }
    ex.sample = Some(format!("default schedule: {} | {}", a.trace.join(" ; "), va.summary));

    let only = std::env::var("VH_PROP").ok().filter(|p| !p.is_empty());
    let mut prefix: Vec<usize> = vec![];
    let mut sigs: Vec<u64> = vec![];
    loop {
        let out = run(scn, prefix.clone(), sigs.clone(), false);
        ex.execs += 1;
        ex.steps += out.steps as u64;
        ex.choice_points += out.points.len() as u64;
        ex.max_points = ex.max_points.max(out.points.len());
        if out.watchdog {
            ex.error = Some(format!("{}: watchdog fired at prefix {:?}", scn.name(), prefix));
            return ex;
        }
        if let Some(d) = out.diverged {
            ex.error = Some(format!("{}: replay divergence at prefix {:?}: {}", scn.name(), prefix, d));
            return ex;
        }
        let mut v = out.verdict.unwrap();
        if let Some(p) = &only {
            // deciding one property: an execution that contradicts only other properties does not end
            // the search (it is reported by those properties' own checks)
            v.breaches.retain(|b| b.props.iter().any(|q| q == p));
        }
        ex.outcomes.insert(v.outcome);
        for f in &v.flags {
            ex.flags.insert(f);
        }
        if !v.breaches.is_empty() && ex.first_violation.is_none() {
            let choices: Vec<usize> = out.points.iter().map(|p| p.chosen).collect();
            let s: Vec<u64> = out.points.iter().map(|p| p.sig).collect();
            ex.first_violation = Some((choices, s, v.breaches, v.summary));
            if stop_at_first {
                return ex;
            }
        }
        if ex.execs >= b.max_execs {
            return ex;
        }
        match next_prefix(&out.points, &b) {
            Some(np) => {
                sigs = out.points[..np.len()].iter().map(|p| p.sig).collect();
                prefix = np;
            }
            None => {
                ex.complete = true;
                return ex;
            }
        }
    }
}

/// Explore a scenario at the given bounds; on a violation, search again with smaller preemption
/// bounds for the cheapest counterexample, re-execute it to make sure it reproduces, and record it.
pub fn check(rep: &mut Report, scn: &dyn Scenario, b: Bounds, spec: &str) {
    let r = explore(scn, b, true);
    rep.evaluations += r.execs;
    rep.traces += r.execs;
    rep.transitions += r.steps;
    rep.states += r.choice_points + r.execs;
    for o in &r.outcomes {
        rep.distinct(&(scn.name(), *o));
    }
    for f in &r.flags {
        rep.flag(f);
    }
    if let Some(s) = &r.sample {
        rep.sample(Json::obj().set("scenario", scn.name()).set("trace", s.clone()));
    }
    let e = rep.extra.iter().find(|e| e.0 == "max_choice_points").and_then(|e| e.1.as_usize()).unwrap_or(0);
    rep.extra("max_choice_points", e.max(r.max_points));
    if let Some(e) = r.error {
        rep.errors.push(e);
        return;
    }
    if !r.complete && r.first_violation.is_none() {
        rep.exhaustive = false;
        rep.flag("execution-cap-hit");
    }
    if r.first_violation.is_some() {
        // cheapest counterexample: iterate the preemption bound upwards
        let mut best = r.first_violation;
        if b.preemptions > 0 {
            for pb in 0..b.preemptions.min(4) {
                let r2 = explore(
                    scn,
                    Bounds {
                        preemptions: pb,
                        deviations: b.deviations,
                        max_execs: b.max_execs,
                        delay: b.delay,
                    },
                    true,
                );
                rep.evaluations += r2.execs;
                if r2.first_violation.is_some() {
                    best = r2.first_violation;
                    break;
                }
            }
        }
        let (choices, sigs, breaches, summary) = best.unwrap();
        // it must reproduce from its recorded choice list
        let again = run(scn, choices.clone(), sigs.clone(), true);
        let reproduced = again.verdict.as_ref().map(|v| !v.breaches.is_empty()).unwrap_or(false) && again.diverged.is_none();
        if !reproduced {
            rep.errors.push(format!(
                "{}: violation did not reproduce from its choice list {:?} (diverged: {:?})",
                scn.name(),
                choices,
                again.diverged
            ));
            return;
        }
        for br in breaches {
            rep.violation(Violation {
                props: br.props.clone(),
                sig: format!("sched/{}", br.sig),
                what: format!("{}: {} | observed: {}", scn.name(), br.what, summary),
                replay: Json::obj()
                    .set("engine", "sched")
                    .set("spec", spec)
                    .set("scenario", scn.name())
                    .set("choices", choices.clone())
                    .set("signatures", sigs.iter().map(|s| format!("{:x}", s)).collect::<Vec<_>>())
                    .set("trace", again.trace.clone())
                    .set("note", "replay needs the controlled scheduler: ./check <ID> --replay <this file>"),
            });
        }
    }
}

/// Replay one recorded choice list on a scenario.
pub fn replay(scn: &dyn Scenario, choices: Vec<usize>, sigs: Vec<u64>) -> (bool, String) {
    let out = run(scn, choices.clone(), sigs, true);
    let mut text = format!("replay sched scenario {} choices {:?}\n", scn.name(), choices);
    for t in &out.trace {
        text.push_str(&format!("  {}\n", t));
    }
    if let Some(d) = &out.diverged {
        text.push_str(&format!("  DIVERGED: {}\n", d));
    }
    let mut bad = false;
    if let Some(v) = &out.verdict {
        text.push_str(&format!("  observed: {}\n", v.summary));
        for b in &v.breaches {
            text.push_str(&format!("  BREACH {:?}: {}\n", b.props, b.what));
            bad = true;
        }
    }
    (bad, text)
}
