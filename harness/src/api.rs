//! Table-driven access to every metric entry point of `StatsdClient`, scripted sink and handler.
use crate::writer::{injected_id, Injected};
use cadence::prelude::*;
use cadence::{ErrorKind, Metric, MetricBuilder, MetricError, MetricSink, StatsdClient, StatsdClientBuilder};
use std::collections::VecDeque;
use std::io;
use std::sync::{Arc, Mutex};
use std::time::Duration;

#[derive(Clone, Copy, Debug, PartialEq, Eq, Hash, PartialOrd, Ord)]
pub enum Kind {
    Counter,
    Timer,
    Gauge,
    Meter,
    Histogram,
    Distribution,
    Set,
}

impl Kind {
    pub fn code(self) -> &'static str {
        match self {
            Kind::Counter => "c",
            Kind::Timer => "ms",
            Kind::Gauge => "g",
            Kind::Meter => "m",
            Kind::Histogram => "h",
            Kind::Distribution => "d",
            Kind::Set => "s",
        }
    }
}

#[derive(Clone, Copy, Debug, PartialEq, Eq, Hash, PartialOrd, Ord)]
pub enum VT {
    I64,
    I32,
    U64,
    U32,
    F64,
    Dur,
    VU64,
    VF64,
    VDur,
    /// incr / decr: no value argument
    None,
}

#[derive(Clone, Debug, PartialEq)]
pub enum Val {
    I64(i64),
    I32(i32),
    U64(u64),
    U32(u32),
    F64(f64),
    Dur(Duration),
    VU64(Vec<u64>),
    VF64(Vec<f64>),
    VDur(Vec<Duration>),
    None,
}

impl Val {
    pub fn vt(&self) -> VT {
        match self {
            Val::I64(_) => VT::I64,
            Val::I32(_) => VT::I32,
            Val::U64(_) => VT::U64,
            Val::U32(_) => VT::U32,
            Val::F64(_) => VT::F64,
            Val::Dur(_) => VT::Dur,
            Val::VU64(_) => VT::VU64,
            Val::VF64(_) => VT::VF64,
            Val::VDur(_) => VT::VDur,
            Val::None => VT::None,
        }
    }
}

#[derive(Clone, Copy, Debug, PartialEq, Eq, Hash)]
pub struct Row {
    pub kind: Kind,
    pub vt: VT,
    pub name: &'static str,
}

/// The 22 (kind x value type) implementations plus incr / decr.
pub const ROWS: [Row; 24] = [
    Row { kind: Kind::Counter, vt: VT::I64, name: "count<i64>" },
    Row { kind: Kind::Counter, vt: VT::I32, name: "count<i32>" },
    Row { kind: Kind::Counter, vt: VT::U64, name: "count<u64>" },
    Row { kind: Kind::Counter, vt: VT::U32, name: "count<u32>" },
    Row { kind: Kind::Timer, vt: VT::U64, name: "time<u64>" },
    Row { kind: Kind::Timer, vt: VT::Dur, name: "time<Duration>" },
    Row { kind: Kind::Timer, vt: VT::VU64, name: "time<Vec<u64>>" },
    Row { kind: Kind::Timer, vt: VT::VDur, name: "time<Vec<Duration>>" },
    Row { kind: Kind::Gauge, vt: VT::U64, name: "gauge<u64>" },
    Row { kind: Kind::Gauge, vt: VT::F64, name: "gauge<f64>" },
    Row { kind: Kind::Meter, vt: VT::U64, name: "meter<u64>" },
    Row { kind: Kind::Histogram, vt: VT::U64, name: "histogram<u64>" },
    Row { kind: Kind::Histogram, vt: VT::F64, name: "histogram<f64>" },
    Row { kind: Kind::Histogram, vt: VT::Dur, name: "histogram<Duration>" },
    Row { kind: Kind::Histogram, vt: VT::VU64, name: "histogram<Vec<u64>>" },
    Row { kind: Kind::Histogram, vt: VT::VF64, name: "histogram<Vec<f64>>" },
    Row { kind: Kind::Histogram, vt: VT::VDur, name: "histogram<Vec<Duration>>" },
    Row { kind: Kind::Distribution, vt: VT::U64, name: "distribution<u64>" },
    Row { kind: Kind::Distribution, vt: VT::F64, name: "distribution<f64>" },
    Row { kind: Kind::Distribution, vt: VT::VU64, name: "distribution<Vec<u64>>" },
    Row { kind: Kind::Distribution, vt: VT::VF64, name: "distribution<Vec<f64>>" },
    Row { kind: Kind::Set, vt: VT::I64, name: "set<i64>" },
    Row { kind: Kind::Counter, vt: VT::None, name: "incr" },
    Row { kind: Kind::Counter, vt: VT::None, name: "decr" },
];

/// One builder call, in the order in which it is to be made.
#[derive(Clone, Debug, PartialEq)]
pub enum Step {
    Tag(String, String),
    TagValue(String),
    Rate(f64),
    Container(String),
    Timestamp(u64),
}

#[derive(Clone, Copy, Debug, PartialEq, Eq, Hash)]
pub enum Form {
    /// `client.count(key, v)`
    Plain,
    /// `client.count_with_tags(key, v)...try_send()`
    TrySend,
    /// `client.count_with_tags(key, v)...send()`
    Send,
}

#[derive(Clone, Debug, PartialEq)]
pub struct Failure {
    pub kind: ErrorKind,
    /// payload id of the sink's own error, if the error carries one
    pub injected: Option<usize>,
    pub io_kind: Option<io::ErrorKind>,
    pub text: String,
}

pub fn failure_of(e: &MetricError) -> Failure {
    let src = std::error::Error::source(e).and_then(|s| s.downcast_ref::<io::Error>());
    Failure {
        kind: e.kind(),
        injected: src.and_then(injected_id),
        io_kind: src.map(|s| s.kind()),
        text: e.to_string(),
    }
}

/// Result of a call: `None` for the quiet form.
pub type CallResult = Option<Result<String, Failure>>;

fn fin<'m, 'c, T>(mut b: MetricBuilder<'m, 'c, T>, steps: &'m [Step], form: Form) -> CallResult
where
    T: Metric + From<String>,
{
    for s in steps {
        b = match s {
            Step::Tag(k, v) => b.with_tag(k, v),
            Step::TagValue(v) => b.with_tag_value(v),
            Step::Rate(r) => b.with_sampling_rate(*r),
            Step::Container(c) => b.with_container_id(c),
            Step::Timestamp(t) => b.with_timestamp(*t),
        };
    }
    match form {
        Form::Send => {
            b.send();
            None
        }
        _ => Some(b.try_send().map(|m| m.as_metric_str().to_string()).map_err(|e| failure_of(&e))),
    }
}

fn plain<T: Metric>(r: Result<T, MetricError>) -> CallResult {
    Some(r.map(|m| m.as_metric_str().to_string()).map_err(|e| failure_of(&e)))
}

/// Call entry point `row` in the given form. Panics if `val` has the wrong type for the row.
pub fn call(client: &StatsdClient, row: &Row, form: Form, key: &str, val: &Val, steps: &[Step]) -> CallResult {
    macro_rules! go {
        ($plain:ident, $tagged:ident, $v:expr) => {
            match form {
                Form::Plain => plain(client.$plain(key, $v)),
                _ => fin(client.$tagged(key, $v), steps, form),
            }
        };
    }
    match (row.kind, val) {
        (Kind::Counter, Val::I64(v)) => go!(count, count_with_tags, *v),
        (Kind::Counter, Val::I32(v)) => go!(count, count_with_tags, *v),
        (Kind::Counter, Val::U64(v)) => go!(count, count_with_tags, *v),
        (Kind::Counter, Val::U32(v)) => go!(count, count_with_tags, *v),
        (Kind::Counter, Val::None) => {
            if row.name == "incr" {
                match form {
                    Form::Plain => plain(client.incr(key)),
                    _ => fin(client.incr_with_tags(key), steps, form),
                }
            } else {
                match form {
                    Form::Plain => plain(client.decr(key)),
                    _ => fin(client.decr_with_tags(key), steps, form),
                }
            }
        }
        (Kind::Timer, Val::U64(v)) => go!(time, time_with_tags, *v),
        (Kind::Timer, Val::Dur(v)) => go!(time, time_with_tags, *v),
        (Kind::Timer, Val::VU64(v)) => go!(time, time_with_tags, v.clone()),
        (Kind::Timer, Val::VDur(v)) => go!(time, time_with_tags, v.clone()),
        (Kind::Gauge, Val::U64(v)) => go!(gauge, gauge_with_tags, *v),
        (Kind::Gauge, Val::F64(v)) => go!(gauge, gauge_with_tags, *v),
        (Kind::Meter, Val::U64(v)) => go!(meter, meter_with_tags, *v),
        (Kind::Histogram, Val::U64(v)) => go!(histogram, histogram_with_tags, *v),
        (Kind::Histogram, Val::F64(v)) => go!(histogram, histogram_with_tags, *v),
        (Kind::Histogram, Val::Dur(v)) => go!(histogram, histogram_with_tags, *v),
        (Kind::Histogram, Val::VU64(v)) => go!(histogram, histogram_with_tags, v.clone()),
        (Kind::Histogram, Val::VF64(v)) => go!(histogram, histogram_with_tags, v.clone()),
        (Kind::Histogram, Val::VDur(v)) => go!(histogram, histogram_with_tags, v.clone()),
        (Kind::Distribution, Val::U64(v)) => go!(distribution, distribution_with_tags, *v),
        (Kind::Distribution, Val::F64(v)) => go!(distribution, distribution_with_tags, *v),
        (Kind::Distribution, Val::VU64(v)) => go!(distribution, distribution_with_tags, v.clone()),
        (Kind::Distribution, Val::VF64(v)) => go!(distribution, distribution_with_tags, v.clone()),
        (Kind::Set, Val::I64(v)) => go!(set, set_with_tags, *v),
        (k, v) => panic!("harness error: value {:?} does not fit entry point kind {:?}", v, k),
    }
}

/// The text the standalone value constructor produces, where the types crate has one.
pub fn standalone(row: &Row, full_prefix: &str, key: &str, val: &Val) -> Option<String> {
    use cadence::{Counter, Distribution, Gauge, Histogram, Meter, Set, Timer};
    Some(match (row.kind, val) {
        (Kind::Counter, Val::I64(v)) => Counter::new(full_prefix, key, *v).as_metric_str().to_string(),
        (Kind::Timer, Val::U64(v)) => Timer::new(full_prefix, key, *v).as_metric_str().to_string(),
        (Kind::Gauge, Val::U64(v)) => Gauge::new(full_prefix, key, *v).as_metric_str().to_string(),
        (Kind::Gauge, Val::F64(v)) => Gauge::new_f64(full_prefix, key, *v).as_metric_str().to_string(),
        (Kind::Meter, Val::U64(v)) => Meter::new(full_prefix, key, *v).as_metric_str().to_string(),
        (Kind::Histogram, Val::U64(v)) => Histogram::new(full_prefix, key, *v).as_metric_str().to_string(),
        (Kind::Histogram, Val::F64(v)) => Histogram::new_f64(full_prefix, key, *v).as_metric_str().to_string(),
        (Kind::Distribution, Val::U64(v)) => Distribution::new(full_prefix, key, *v).as_metric_str().to_string(),
        (Kind::Distribution, Val::F64(v)) => Distribution::new_f64(full_prefix, key, *v).as_metric_str().to_string(),
        (Kind::Set, Val::I64(v)) => Set::new(full_prefix, key, *v).as_metric_str().to_string(),
        _ => return None,
    })
}

// ---------------------------------------------------------------------------------------------
// scripted sink and recording handler

#[derive(Clone, Copy, Debug, PartialEq, Eq, Hash)]
pub enum Answer {
    Accept,
    Refuse(io::ErrorKind),
}

#[derive(Default)]
pub struct SinkState {
    pub emits: Vec<String>,
    pub flushes: usize,
    pub script: VecDeque<Answer>,
    pub next_id: usize,
    /// ids of the refusals handed out, in order
    pub refused_ids: Vec<usize>,
}

#[derive(Clone, Default)]
pub struct RecSink(pub Arc<Mutex<SinkState>>);

impl MetricSink for RecSink {
    fn emit(&self, metric: &str) -> io::Result<usize> {
        let mut s = self.0.lock().unwrap();
        s.emits.push(metric.to_string());
        match s.script.pop_front().unwrap_or(Answer::Accept) {
            Answer::Accept => Ok(metric.len()),
            Answer::Refuse(kind) => {
                s.next_id += 1;
                let id = s.next_id;
                s.refused_ids.push(id);
                Err(io::Error::new(kind, Injected(id)))
            }
        }
    }

    fn flush(&self) -> io::Result<()> {
        self.0.lock().unwrap().flushes += 1;
        Ok(())
    }
}

pub type HandlerLog = Arc<Mutex<Vec<Failure>>>;

#[derive(Clone, Debug, Default, PartialEq, Eq, Hash)]
pub struct ClientCfg {
    pub prefix: String,
    /// default tags in configuration order: (key or None, value)
    pub tags: Vec<(Option<String>, String)>,
    pub container: Option<String>,
}

pub struct Rig {
    pub client: StatsdClient,
    pub sink: RecSink,
    pub handler: HandlerLog,
}

pub fn build(cfg: &ClientCfg) -> Rig {
    let sink = RecSink::default();
    let handler: HandlerLog = Arc::new(Mutex::new(vec![]));
    let h2 = handler.clone();
    let mut b: StatsdClientBuilder = StatsdClient::builder(&cfg.prefix, sink.clone()).with_error_handler(move |e| {
        h2.lock().unwrap().push(failure_of(&e));
    });
    for (k, v) in &cfg.tags {
        b = match k {
            Some(k) => b.with_tag(k, v),
            None => b.with_tag_value(v),
        };
    }
    if let Some(c) = &cfg.container {
        b = b.with_container_id(c);
    }
    Rig {
        client: b.build(),
        sink,
        handler,
    }
}
