//! seqx/writer: explicit-state and bounded-exhaustive exploration of the real
//! `cadence::ext::MultiLineWriter` (C05, C06, C07, C19).
use crate::common::{letter, Report, Violation};
use crate::json::{bytes_str, Json};
use crate::wmodel::{attempts_json, Attempt, Breach, Call, Met, Model, Res};
use cadence::ext::MultiLineWriter;
use std::cell::RefCell;
use std::collections::{HashSet, VecDeque};
use std::io::{self, Write};
use std::panic::{self, AssertUnwindSafe};
use std::rc::Rc;

/// Answer of the scripted writer to one write attempt.
#[derive(Clone, Copy, Debug, PartialEq, Eq, Hash)]
pub enum Ans {
    Ok,
    Other,
    Interrupted,
    WouldBlock,
    /// the underlying writer panics (nothing is written); the panic unwinds through the call
    Panic,
}

impl Ans {
    fn code(self) -> &'static str {
        match self {
            Ans::Ok => "ok",
            Ans::Other => "other",
            Ans::Interrupted => "interrupted",
            Ans::WouldBlock => "wouldblock",
            Ans::Panic => "panic",
        }
    }
    fn parse(s: &str) -> Ans {
        match s {
            "other" => Ans::Other,
            "interrupted" => Ans::Interrupted,
            "wouldblock" => Ans::WouldBlock,
            "panic" => Ans::Panic,
            _ => Ans::Ok,
        }
    }
}

#[derive(Default)]
pub struct Env {
    pub attempts: Vec<Attempt>,
    pub script: VecDeque<Ans>,
    pub next_id: usize,
    /// id of the attempt at which the scripted writer panicked during the current call
    pub scripted_panic: Option<usize>,
}

/// `io::Write` double: logs every attempt, answers from a script (default: accept all bytes,
/// all-or-nothing like a datagram socket).
#[derive(Clone)]
pub struct ScriptedWriter(pub Rc<RefCell<Env>>);

impl std::fmt::Debug for ScriptedWriter {
    fn fmt(&self, f: &mut std::fmt::Formatter<'_>) -> std::fmt::Result {
        write!(f, "ScriptedWriter")
    }
}

#[derive(Debug)]
pub struct Injected(pub usize);
impl std::fmt::Display for Injected {
    fn fmt(&self, f: &mut std::fmt::Formatter<'_>) -> std::fmt::Result {
        write!(f, "injected failure #{}", self.0)
    }
}
impl std::error::Error for Injected {}

pub fn injected_id(e: &io::Error) -> Option<usize> {
    e.get_ref().and_then(|r| r.downcast_ref::<Injected>()).map(|i| i.0)
}

impl Write for ScriptedWriter {
    fn write(&mut self, b: &[u8]) -> io::Result<usize> {
        let mut e = self.0.borrow_mut();
        let ans = e.script.pop_front().unwrap_or(Ans::Ok);
        if ans == Ans::Ok {
            e.attempts.push(Attempt {
                bytes: b.to_vec(),
                ok: true,
                fail_id: None,
            });
            Ok(b.len())
        } else {
            e.next_id += 1;
            let id = e.next_id;
            e.attempts.push(Attempt {
                bytes: b.to_vec(),
                ok: false,
                fail_id: Some(id),
            });
            if ans == Ans::Panic {
                e.scripted_panic = Some(id);
                drop(e);
                panic::panic_any(crate::rt::ScriptedPanic(format!("the underlying writer panics (attempt #{})", id)));
            }
            let kind = match ans {
                Ans::Interrupted => io::ErrorKind::Interrupted,
                Ans::WouldBlock => io::ErrorKind::WouldBlock,
                _ => io::ErrorKind::Other,
            };
            Err(io::Error::new(kind, Injected(id)))
        }
    }

    fn flush(&mut self) -> io::Result<()> {
        Ok(())
    }
}

#[derive(Clone, Debug, PartialEq, Eq, Hash)]
pub enum Op {
    Emit(usize, Vec<Ans>),
    Flush(Vec<Ans>),
}

impl Op {
    fn faults(&self) -> &Vec<Ans> {
        match self {
            Op::Emit(_, f) | Op::Flush(f) => f,
        }
    }
    fn with_faults(&self, f: Vec<Ans>) -> Op {
        match self {
            Op::Emit(l, _) => Op::Emit(*l, f),
            Op::Flush(_) => Op::Flush(f),
        }
    }
    pub fn to_json(&self) -> Json {
        let f: Vec<Json> = self.faults().iter().map(|a| Json::from(a.code())).collect();
        match self {
            Op::Emit(l, _) => Json::obj().set("op", "emit").set("len", *l).set("answers", f),
            Op::Flush(_) => Json::obj().set("op", "flush").set("answers", f),
        }
    }
    pub fn from_json(j: &Json) -> Op {
        let f: Vec<Ans> = j
            .get("answers")
            .and_then(|a| a.as_arr())
            .map(|a| a.iter().map(|x| Ans::parse(x.as_str().unwrap_or("ok"))).collect())
            .unwrap_or_default();
        if j.str_at("op") == "flush" {
            Op::Flush(f)
        } else {
            Op::Emit(j.usize_at("len"), f)
        }
    }
}

pub struct Obs {
    pub call: Call,
    pub res: Res,
    pub attempts: Vec<Attempt>,
    /// the call was ended by a panic of the scripted writer (at its last attempt)
    pub scripted_panic: bool,
    /// ... and that attempt carried the emit's own line: what became of the metric is open
    pub uncertain: bool,
}

pub struct Run {
    pub obs: Vec<Obs>,
    /// Debug rendering of the writer after the history
    pub dbg: String,
    pub drop_attempts: Vec<Attempt>,
    /// message of an unexpected panic, with the index of the operation
    pub panic: Option<(usize, String)>,
}

fn to_res(r: io::Result<usize>) -> Res {
    match r {
        Ok(n) => Res::Ok(n),
        Err(e) => Res::Err(injected_id(&e), format!("{:?}: {}", e.kind(), e)),
    }
}

/// Replay `hist` on a fresh real writer, then drop it (the drop's writes answered by `drop_script`).
pub fn run(cap: usize, end: &str, hist: &[Op], drop_script: &[Ans]) -> Run {
    let env = Rc::new(RefCell::new(Env::default()));
    let mut out = Run {
        obs: vec![],
        dbg: String::new(),
        drop_attempts: vec![],
        panic: None,
    };
    let r = panic::catch_unwind(AssertUnwindSafe(|| {
        let mut w = MultiLineWriter::with_ending(ScriptedWriter(env.clone()), cap, end);
        for (i, op) in hist.iter().enumerate() {
            {
                let mut e = env.borrow_mut();
                e.attempts.clear();
                e.script = op.faults().iter().copied().collect();
                e.scripted_panic = None;
            }
            let (call, res) = match op {
                Op::Emit(l, _) => {
                    let m = Met {
                        letter: letter(i),
                        len: *l,
                    };
                    let r = panic::catch_unwind(AssertUnwindSafe(|| w.write(&m.bytes())));
                    (Call::Emit(m), r)
                }
                Op::Flush(_) => {
                    let r = panic::catch_unwind(AssertUnwindSafe(|| w.flush().map(|_| 0)));
                    (Call::Flush, r)
                }
            };
            let attempts = std::mem::take(&mut env.borrow_mut().attempts);
            let scripted = env.borrow_mut().scripted_panic.take();
            match res {
                Ok(r) => out.obs.push(Obs {
                    call,
                    res: to_res(r),
                    attempts,
                    scripted_panic: false,
                    uncertain: false,
                }),
                Err(p) if scripted.is_some() && p.is::<crate::rt::ScriptedPanic>() => {
                    // the writer's own panic, passed on to the caller (the statements speak of failed
                    // writes, not of a writer that panics; the writer stays in use and is judged on).
                    // For the reference model the call failed with that attempt's failure before its metric
                    // was taken - unless the attempt that panicked already carried the emit's own line ...
                    let carried_own_line = match (&call, attempts.last()) {
                        (Call::Emit(m), Some(a)) => {
                            let mut line = m.bytes();
                            line.extend_from_slice(end.as_bytes());
                            !line.is_empty() && a.bytes.len() >= line.len() && a.bytes.ends_with(&line)
                        }
                        _ => false,
                    };
                    // ... whether the metric then stayed in the buffer (a sink that buffers first and
                    // sends a datagram as soon as it is exactly full) or was never taken (std's BufWriter
                    // passing a write of its own capacity straight through) is not for the statements to
                    // say: such a history is judged up to this call and no further.
                    out.obs.push(Obs {
                        call,
                        res: Res::Err(scripted, "the underlying writer panicked".into()),
                        attempts,
                        scripted_panic: true,
                        uncertain: carried_own_line,
                    })
                }
                Err(p) => {
                    out.panic = Some((i, crate::common::payload_str(&*p)));
                    out.obs.push(Obs {
                        call,
                        res: Res::Err(None, "panic".into()),
                        attempts,
                        scripted_panic: false,
                        uncertain: false,
                    });
                    // the writer may be in an arbitrary state: leak it rather than drop it
                    std::mem::forget(w);
                    return;
                }
            }
        }
        out.dbg = format!("{:?}", w);
        {
            let mut e = env.borrow_mut();
            e.attempts.clear();
            e.script = drop_script.iter().copied().collect();
        }
        let r = panic::catch_unwind(AssertUnwindSafe(move || drop(w)));
        if let Err(p) = r {
            out.panic = Some((hist.len(), crate::common::payload_str(&*p)));
        }
        out.drop_attempts = std::mem::take(&mut env.borrow_mut().attempts);
    }));
    if let Err(p) = r {
        out.panic = Some((hist.len(), crate::common::payload_str(&*p)));
    }
    out
}

pub struct Judged {
    pub breaches: Vec<(usize, Breach)>,
    pub model: Model,
}

/// Judge a run with the reference model (`faulty`: tag with C07 as well).
pub fn judge(cap: usize, end: &str, hist: &[Op], run: &Run, faulty: bool, with_drop: bool) -> Judged {
    let mut model = Model::new(cap, end.as_bytes(), faulty);
    let mut breaches = vec![];
    if let Some((i, msg)) = &run.panic {
        let mut props = vec!["C20", "C05", "C06", "C19"];
        if faulty {
            props.push("C07");
        }
        breaches.push((
            *i,
            Breach {
                props,
                sig: "panic".into(),
                what: format!("operation {} panicked: {}", i, msg),
            },
        ));
    }
    let mut open_ended = false;
    for (i, o) in run.obs.iter().enumerate() {
        if run.panic.as_ref().map(|p| p.0 == i).unwrap_or(false) {
            break;
        }
        if o.uncertain {
            // judged up to here: the attempts of this call are still checked for framing below by
            // the calls before it; what follows depends on what became of the metric
            open_ended = true;
            break;
        }
        for b in model.step(&o.call, &o.attempts, &o.res) {
            breaches.push((i, b));
        }
        if o.scripted_panic {
            // std's BufWriter does not flush on drop while it remembers that its writer panicked (it
            // forgets on its next own write, not on a write that bypasses it): after a panic of the
            // writer, what a drop leaves unwritten is not judged any more in this history
            model.inner_panicked = true;
        }
    }
    if with_drop && run.panic.is_none() && !open_ended {
        for b in model.step(&Call::Drop, &run.drop_attempts, &Res::Ok(0)) {
            breaches.push((hist.len(), b));
        }
    }
    Judged { breaches, model }
}

fn replay_doc(cap: usize, end: &str, hist: &[Op], drop_script: &[Ans], faulty: bool) -> Json {
    Json::obj()
        .set("engine", "writer")
        .set("capacity", cap)
        .set("terminator", end)
        .set("history", hist.iter().map(|o| o.to_json()).collect::<Vec<_>>())
        .set(
            "drop_answers",
            drop_script.iter().map(|a| Json::from(a.code())).collect::<Vec<_>>(),
        )
        .set("faulty", faulty)
        .set("unit_test", unit_test_text(cap, end, hist))
}

/// A plain test body that replays the history without the explorer (for humans).
fn unit_test_text(cap: usize, end: &str, hist: &[Op]) -> String {
    let mut s = String::new();
    s.push_str("// needs a Write double that logs each write() and fails where marked\n");
    s.push_str(&format!(
        "let mut w = cadence::ext::MultiLineWriter::with_ending(log_writer, {}, {:?});\n",
        cap, end
    ));
    for (i, op) in hist.iter().enumerate() {
        let f = op.faults();
        let note = if f.iter().any(|a| *a != Ans::Ok) {
            format!(" // underlying write answers: {:?}", f)
        } else {
            String::new()
        };
        match op {
            Op::Emit(l, _) => s.push_str(&format!(
                "let _ = w.write(&[b'{}'; {}]);{}\n",
                letter(i) as char,
                l,
                note
            )),
            Op::Flush(_) => s.push_str(&format!("let _ = w.flush();{}\n", note)),
        }
    }
    s.push_str("drop(w); // then inspect the log of underlying writes\n");
    s
}

fn describe(cap: usize, end: &str, hist: &[Op], run: &Run) -> Json {
    let mut steps = vec![];
    for (i, o) in run.obs.iter().enumerate() {
        steps.push(
            Json::obj()
                .set("op", hist[i].to_json())
                .set("result", format!("{:?}", o.res))
                .set("writes", attempts_json(&o.attempts)),
        );
    }
    Json::obj()
        .set("capacity", cap)
        .set("terminator", end)
        .set("steps", steps)
        .set("drop_writes", attempts_json(&run.drop_attempts))
}

fn record(rep: &mut Report, cap: usize, end: &str, hist: &[Op], drop_script: &[Ans], faulty: bool, j: &Judged, run: &Run) {
    for (i, b) in &j.breaches {
        let doc = replay_doc(cap, end, hist, drop_script, faulty).set("observed", describe(cap, end, hist, run));
        rep.violation(Violation {
            props: b.props.clone(),
            sig: format!("writer/{}", b.sig),
            what: format!("cap={} end={:?} history={} at op {}: {}", cap, end, hist_str(hist), i, b.what),
            replay: doc,
        });
    }
}

pub fn hist_str(hist: &[Op]) -> String {
    hist.iter()
        .map(|o| {
            let f = o.faults();
            let fs = if f.is_empty() {
                String::new()
            } else {
                format!("{{{}}}", f.iter().map(|a| a.code()).collect::<Vec<_>>().join(","))
            };
            match o {
                Op::Emit(l, _) => format!("E{}{}", l, fs),
                Op::Flush(_) => format!("F{}", fs),
            }
        })
        .collect::<Vec<_>>()
        .join(" ")
}

/// Canonical renaming of metric letters in first-appearance order.
fn canon(bytes: &[u8]) -> Vec<u8> {
    let mut map: Vec<(u8, u8)> = vec![];
    let mut out = vec![];
    for &b in bytes {
        if b.is_ascii_alphanumeric() {
            let c = match map.iter().find(|x| x.0 == b) {
                Some(x) => x.1,
                None => {
                    let c = letter(map.len());
                    map.push((b, c));
                    c
                }
            };
            out.push(c);
        } else {
            out.push(b);
        }
    }
    out
}

/// Remove the monotone `WriterMetrics` counters from the Debug rendering, wherever the field sits
/// (brace matching, so that reordering the struct's fields does not matter). `None` if the text does
/// not look as expected (then states are not merged).
fn strip_dbg(d: &str) -> Option<String> {
    let a = d.find("metrics: ")?;
    let open = d[a..].find('{')? + a;
    let mut depth = 0usize;
    let mut close = None;
    for (i, c) in d[open..].char_indices() {
        match c {
            '{' => depth += 1,
            '}' => {
                depth -= 1;
                if depth == 0 {
                    close = Some(open + i + 1);
                    break;
                }
            }
            _ => {}
        }
    }
    let mut b = close?;
    let mut a = a;
    // take one separator along: the one after the field, or (last field) the one before it
    if d[b..].starts_with(", ") {
        b += 2;
    } else if d[..a].ends_with(", ") {
        a -= 2;
    }
    Some(format!("{}{}", &d[..a], &d[b..]))
}

thread_local! {
    /// explicit metric-length alphabet (for capacities too large to enumerate every length)
    pub static LENS: RefCell<Option<Vec<usize>>> = const { RefCell::new(None) };
}

fn alphabet(cap: usize, end: &str) -> Vec<Op> {
    if let Some(l) = LENS.with(|l| l.borrow().clone()) {
        let mut ops: Vec<Op> = l.into_iter().filter(|l| !(*l == 0 && end.is_empty())).map(|l| Op::Emit(l, vec![])).collect();
        ops.push(Op::Flush(vec![]));
        return ops;
    }
    let mut ops: Vec<Op> = (0..=cap + 2)
        .filter(|l| !(*l == 0 && end.is_empty()))
        .map(|l| Op::Emit(l, vec![]))
        .collect();
    ops.push(Op::Flush(vec![]));
    ops
}

/// All answer scripts for `base` appended to `hist`, with at most `maxf` failures, discovered
/// lazily: a script is extended only at attempts the operation really made.
fn fault_scripts(cap: usize, end: &str, hist: &[Op], base: &Op, maxf: usize, kinds: &[Ans], mut f: impl FnMut(Op, Run)) {
    let mut stack: Vec<Vec<Ans>> = vec![vec![]];
    while let Some(script) = stack.pop() {
        let op = base.with_faults(script.clone());
        let mut h2 = hist.to_vec();
        h2.push(op.clone());
        let r = run(cap, end, &h2, &[]);
        let asked = r.obs.last().map(|o| o.attempts.len()).unwrap_or(0);
        let nf = script.iter().filter(|a| **a != Ans::Ok).count();
        if nf < maxf {
            for i in script.len()..asked {
                for k in kinds {
                    let mut g = script.clone();
                    g.resize(i, Ans::Ok);
                    g.push(*k);
                    stack.push(g);
                }
            }
        }
        f(op, r);
    }
}

/// Fixpoint breadth-first search over the reachable states of the real writer, states merged
/// on (visible writer state, buffered bytes, model's pending list).
pub fn bfs(cap: usize, end: &str, maxf: usize, budget: u64) -> Report {
    let name = format!("writer-bfs cap={} end={:?} F={}", cap, end, maxf);
    let mut rep = Report::new(&name);
    let faulty = maxf > 0;
    let kinds: &[Ans] = &[Ans::Other, Ans::Interrupted, Ans::WouldBlock, Ans::Panic];
    let mut seen: HashSet<(String, Vec<u8>, Vec<usize>)> = HashSet::new();
    let mut frontier: VecDeque<Vec<Op>> = VecDeque::new();
    let mut maxdepth = 0usize;
    let mut merged = true;

    let mut visit = |rep: &mut Report, hist: &[Op], r: &Run, seen: &mut HashSet<(String, Vec<u8>, Vec<usize>)>, merged: &mut bool| -> bool {
        // judge the whole history including the terminal drop
        let j = judge(cap, end, hist, r, faulty, true);
        rep.transitions += 1;
        rep.traces += 1;
        if !j.breaches.is_empty() {
            record(rep, cap, end, hist, &[], faulty, &j, r);
            return false; // do not explore beyond a violating state
        }
        if r.obs.iter().any(|o| o.uncertain) {
            // judged up to the call whose metric's fate is open; nothing to explore beyond it
            rep.flag("writer-panic-left-the-metric's-fate-open");
            return false;
        }
        coverage_flags(rep, cap, end, hist, r);
        let got: Vec<u8> = r.drop_attempts.iter().flat_map(|a| a.bytes.clone()).collect();
        let dbg = match strip_dbg(&r.dbg) {
            Some(d) => d,
            None => {
                *merged = false;
                format!("{}#{}", r.dbg, hist_str(hist))
            }
        };
        // pending before the drop = model pending after the history without the drop
        let jp = judge(cap, end, hist, r, faulty, false);
        let key = (dbg, canon(&got), jp.model.pending.iter().map(|m| m.len).collect());
        seen.insert(key)
    };

    let r0 = run(cap, end, &[], &[]);
    visit(&mut rep, &[], &r0, &mut seen, &mut merged);
    frontier.push_back(vec![]);
    while let Some(hist) = frontier.pop_front() {
        maxdepth = maxdepth.max(hist.len());
        // when the writer's Debug rendering is not recognised states cannot be merged and the search
        // never closes: explore a bounded number of histories instead and say so
        let limit = if merged { budget } else { budget.min(300_000) };
        if rep.transitions > limit || rep.full() {
            rep.exhaustive = false;
            rep.flag("budget-hit");
            break;
        }
        for base in alphabet(cap, end) {
            let mut news: Vec<Vec<Op>> = vec![];
            fault_scripts(cap, end, &hist, &base, maxf, kinds, |op, r| {
                let mut h2 = hist.clone();
                h2.push(op);
                if visit(&mut rep, &h2, &r, &mut seen, &mut merged) {
                    news.push(h2);
                }
            });
            // also: the terminal drop failing (only from the state itself, nothing follows)
            for h2 in news {
                if maxf > 0 {
                    let rd = run(cap, end, &h2, &[Ans::Other]);
                    let j = judge(cap, end, &h2, &rd, true, true);
                    rep.transitions += 1;
                    if !j.breaches.is_empty() {
                        record(&mut rep, cap, end, &h2, &[Ans::Other], true, &j, &rd);
                    }
                }
                if rep.samples.len() < 2 && h2.len() >= 3 {
                    let r = run(cap, end, &h2, &[]);
                    rep.sample(describe(cap, end, &h2, &r));
                }
                frontier.push_back(h2);
            }
        }
    }
    rep.states = seen.len() as u64;
    rep.evaluations = rep.transitions;
    for k in seen.iter() {
        rep.distinct(k);
    }
    rep.extra("max_depth", maxdepth);
    rep.extra("states_merged", merged);
    if !merged {
        rep.exhaustive = false;
        rep.flag("debug-format-unrecognised:states-not-merged");
    }
    rep
}

fn coverage_flags(rep: &mut Report, cap: usize, end: &str, hist: &[Op], r: &Run) {
    if let (Some(op), Some(o)) = (hist.last(), r.obs.last()) {
        if let Op::Emit(l, _) = op {
            let need = l + end.len();
            if need > cap && o.attempts.iter().any(|a| a.ok) {
                rep.flag("bypass-write");
            }
            if need <= cap && !o.attempts.is_empty() {
                rep.flag("automatic-flush");
            }
            if need == cap {
                rep.flag("exact-fit");
            }
            if matches!(o.res, Res::Err(..)) {
                rep.flag("emit-error");
            }
        } else {
            if !o.attempts.is_empty() {
                rep.flag("explicit-flush-wrote");
            }
            if matches!(o.res, Res::Err(..)) {
                rep.flag("flush-error");
            }
        }
        if o.attempts.iter().filter(|a| !a.ok).count() >= 1 && matches!(o.res, Res::Ok(_)) {
            rep.flag("ok-after-retried-failure");
        }
    }
    if !r.drop_attempts.is_empty() {
        rep.flag("drop-wrote");
    }
}

/// Unmerged enumeration of all histories up to `depth`, at most `maxf_hist` injected failures per
/// history and `maxf_op` per operation. No assumption about the writer's internal state.
pub fn tree(cap: usize, end: &str, depth: usize, maxf_op: usize, maxf_hist: usize, first: Option<usize>) -> Report {
    let name = format!(
        "writer-tree cap={} end={:?} depth={} Fop={} Fhist={} first={:?}",
        cap, end, depth, maxf_op, maxf_hist, first
    );
    let mut rep = Report::new(&name);
    let faulty = maxf_hist > 0;
    let kinds: &[Ans] = &[Ans::Other, Ans::Interrupted, Ans::Panic];
    let alpha = alphabet(cap, end);
    // depth-first over histories; each node = one replay of the whole history
    fn rec(
        rep: &mut Report,
        cap: usize,
        end: &str,
        alpha: &[Op],
        kinds: &[Ans],
        hist: &mut Vec<Op>,
        depth: usize,
        maxf_op: usize,
        budget: usize,
        faulty: bool,
        first: Option<usize>,
    ) {
        if hist.len() == depth || rep.full() {
            return;
        }
        for (ai, base) in alpha.iter().enumerate() {
            if hist.is_empty() {
                if let Some(f) = first {
                    if ai != f {
                        continue;
                    }
                }
            }
            let mut children: Vec<(Op, bool)> = vec![];
            let h0 = hist.clone();
            fault_scripts(cap, end, &h0, base, maxf_op.min(budget), kinds, |op, r| {
                let mut h2 = h0.clone();
                h2.push(op.clone());
                let j = judge(cap, end, &h2, &r, faulty, true);
                rep.evaluations += 1;
                rep.traces += 1;
                rep.transitions += h2.len() as u64 + 1;
                if !j.breaches.is_empty() {
                    record(rep, cap, end, &h2, &[], faulty, &j, &r);
                    children.push((op, false));
                    return;
                }
                if !faulty {
                    if let Some(b) = greedy_check(cap, end, &h2, &j.model) {
                        rep.violation(Violation {
                            props: vec!["C19"],
                            sig: "writer/not-greedy".into(),
                            what: format!("cap={} end={:?} history={}: {}", cap, end, hist_str(&h2), b),
                            replay: replay_doc(cap, end, &h2, &[], false).set("observed", describe(cap, end, &h2, &r)),
                        });
                    }
                }
                coverage_flags(rep, cap, end, &h2, &r);
                let shape: Vec<(usize, usize)> = r
                    .obs
                    .iter()
                    .map(|o| (o.attempts.len(), o.attempts.iter().map(|a| a.bytes.len()).sum()))
                    .collect();
                rep.distinct(&(hist_str(&h2), shape));
                if rep.samples.len() < 2 && h2.len() == 4 {
                    rep.sample(describe(cap, end, &h2, &r));
                }
                children.push((op, true));
            });
            for (op, ok) in children {
                if !ok {
                    continue;
                }
                let nf = op.faults().iter().filter(|a| **a != Ans::Ok).count();
                hist.push(op);
                rec(rep, cap, end, alpha, kinds, hist, depth, maxf_op, budget - nf, faulty, first);
                hist.pop();
            }
        }
    }
    let mut hist = vec![];
    rec(&mut rep, cap, end, &alpha, kinds, &mut hist, depth, maxf_op, maxf_hist, faulty, first);
    rep.states = rep.evaluations;
    rep
}

/// C19, independently: on a failure-free history the buffered datagrams are exactly the in-order
/// greedy packing of the accepted fitting metrics between boundaries. A flush and the drop are forced
/// boundaries. An emit whose metric does not fit an empty buffer is an *optional* one: the statement
/// lets a sink write "during an emit whose metric plus terminator does not fit in the space remaining",
/// so sending what is buffered before the oversize metric (instead of after it, as the code does today)
/// is as conforming as keeping it; every choice of those optional boundaries is accepted.
fn greedy_check(cap: usize, end: &str, hist: &[Op], model: &Model) -> Option<String> {
    let oversize_at: Vec<usize> = hist.iter().enumerate().filter(|(_, op)| matches!(op, Op::Emit(l, _) if l + end.len() > cap)).map(|(i, _)| i).collect();
    let got: Vec<usize> = model.datagrams.iter().filter(|d| !d.1).map(|d| d.0.len()).collect();
    let k = oversize_at.len().min(12);
    let mut wants: Vec<Vec<usize>> = vec![];
    for mask in 0..(1u32 << k) {
        let mut groups: Vec<Vec<usize>> = vec![vec![]];
        for (i, op) in hist.iter().enumerate() {
            match op {
                Op::Emit(l, _) => {
                    if l + end.len() <= cap {
                        groups.last_mut().unwrap().push(*l);
                    } else if let Some(j) = oversize_at.iter().position(|x| *x == i) {
                        if j < k && mask & (1 << j) != 0 {
                            groups.push(vec![]);
                        }
                    }
                }
                Op::Flush(_) => groups.push(vec![]),
            }
        }
        let want: Vec<usize> = Model::greedy_pack(cap, end.len(), &groups).iter().map(|d| d.iter().map(|l| l + end.len()).sum()).collect();
        if want == got {
            return None;
        }
        if !wants.contains(&want) {
            wants.push(want);
        }
    }
    Some(format!("buffered datagram sizes {:?} differ from every in-order greedy packing {:?}", got, wants))
}

/// Replay a violation document; prints what happened and returns whether it still violates.
pub fn replay(doc: &Json) -> (bool, String) {
    let cap = doc.usize_at("capacity");
    let end = doc.str_at("terminator");
    let hist: Vec<Op> = doc
        .get("history")
        .and_then(|h| h.as_arr())
        .map(|a| a.iter().map(Op::from_json).collect())
        .unwrap_or_default();
    let drop_script: Vec<Ans> = doc
        .get("drop_answers")
        .and_then(|h| h.as_arr())
        .map(|a| a.iter().map(|x| Ans::parse(x.as_str().unwrap_or("ok"))).collect())
        .unwrap_or_default();
    let faulty = doc.get("faulty").and_then(|b| b.as_bool()).unwrap_or(false);
    let r = run(cap, &end, &hist, &drop_script);
    let j = judge(cap, &end, &hist, &r, faulty, true);
    let mut text = format!("replay writer cap={} end={:?} history={}\n", cap, end, hist_str(&hist));
    for (i, o) in r.obs.iter().enumerate() {
        text.push_str(&format!(
            "  op {} {:?} -> {:?}; writes: {}\n",
            i,
            hist[i],
            o.res,
            o.attempts
                .iter()
                .map(|a| format!("{:?}{}", bytes_str(&a.bytes), if a.ok { "" } else { "(FAILED)" }))
                .collect::<Vec<_>>()
                .join(", ")
        ));
    }
    text.push_str(&format!(
        "  drop; writes: {}\n",
        r.drop_attempts
            .iter()
            .map(|a| format!("{:?}{}", bytes_str(&a.bytes), if a.ok { "" } else { "(FAILED)" }))
            .collect::<Vec<_>>()
            .join(", ")
    ));
    let mut bad = !j.breaches.is_empty();
    if !faulty {
        if let Some(b) = greedy_check(cap, &end, &hist, &j.model) {
            text.push_str(&format!("  BREACH [C19] {}\n", b));
            bad = true;
        }
    }
    for (i, b) in &j.breaches {
        text.push_str(&format!("  BREACH {:?} at op {}: {}\n", b.props, i, b.what));
    }
    (bad, text)
}


/// One long, fixed (deterministic, not enumerated) history per configuration: tens of thousands of
/// operations with lengths cycling through a pattern that hits every boundary again and again,
/// periodic flushes and (optionally) a failure every `fail_every`-th write attempt. Judged by the
/// same model. It complements the exhaustive short histories against defects that need a lot of
/// accumulated state (counters that wrap, growth thresholds).
pub fn long_history(cap: usize, end: &str, n: usize, fail_every: usize) -> Report {
    let name = format!("writer-long cap={} end={:?} n={} fail_every={}", cap, end, n, fail_every);
    let mut rep = Report::new(&name);
    let env = Rc::new(RefCell::new(Env::default()));
    let mut model = Model::new(cap, end.as_bytes(), fail_every > 0);
    let mut attempts_total = 0usize;
    let r = panic::catch_unwind(AssertUnwindSafe(|| {
        let mut w = MultiLineWriter::with_ending(ScriptedWriter(env.clone()), cap, end);
        let pattern: Vec<usize> = {
            let mut p: Vec<usize> = vec![1, 2, 3, 5, 7, cap / 3, cap / 2, cap.saturating_sub(end.len() + 1), cap.saturating_sub(end.len()), cap, cap + 1, 0, 11, 1];
            p.retain(|l| !(*l == 0 && end.is_empty()));
            p
        };
        for i in 0..n {
            let flush = i % 17 == 16;
            {
                let mut e = env.borrow_mut();
                e.attempts.clear();
                e.script.clear();
                // the answer script for this operation: fail the k-th attempt overall
                if fail_every > 0 {
                    let mut sc = VecDeque::new();
                    for k in 0..3 {
                        sc.push_back(if (attempts_total + k + 1) % fail_every == 0 { Ans::Other } else { Ans::Ok });
                    }
                    e.script = sc;
                }
            }
            let (call, res) = if flush {
                (Call::Flush, w.flush().map(|_| 0))
            } else {
                let m = Met { letter: letter(i), len: pattern[i % pattern.len()] };
                // letters are reused every 62 operations: forget the previous metric with this letter
                // (with a flush every 17 operations it left the writer long ago, or was reported then)
                model.rejected.retain(|r| r.letter != m.letter);
                model.emitted.retain(|r| r.letter != m.letter);
                let r = w.write(&m.bytes());
                (Call::Emit(m), r)
            };
            let attempts = std::mem::take(&mut env.borrow_mut().attempts);
            attempts_total += attempts.len();
            rep.transitions += 1;
            // the model keeps every metric ever emitted for its diagnostics: trim what is long gone
            if model.emitted.len() > 200 {
                model.emitted.drain(..100);
                model.written.clear();
                model.rejected.retain(|m| model.emitted.contains(m));
                model.datagrams.clear();
            }
            for b in model.step(&call, &attempts, &to_res(res)) {
                rep.violation(Violation {
                    props: b.props.clone(),
                    sig: format!("writer-long/{}", b.sig),
                    what: format!("{} at operation {}: {}", name, i, b.what),
                    replay: Json::obj().set("engine", "wlong").set("cap", cap).set("end", end).set("n", n).set("fail_every", fail_every),
                });
            }
            if rep.full() {
                break;
            }
        }
        {
            let mut e = env.borrow_mut();
            e.attempts.clear();
            e.script.clear();
        }
        drop(w);
        let attempts = std::mem::take(&mut env.borrow_mut().attempts);
        for b in model.step(&Call::Drop, &attempts, &Res::Ok(0)) {
            rep.violation(Violation {
                props: b.props.clone(),
                sig: format!("writer-long/{}", b.sig),
                what: format!("{} at the final drop: {}", name, b.what),
                replay: Json::obj().set("engine", "wlong"),
            });
        }
    }));
    if let Err(p) = r {
        rep.violation(Violation {
            props: vec!["C20", "C05", "C06", "C07", "C19"],
            sig: "writer-long/panic".into(),
            what: format!("{} panicked: {}", name, crate::common::payload_str(&*p)),
            replay: Json::obj().set("engine", "wlong"),
        });
    }
    rep.evaluations = rep.transitions;
    rep.states = rep.transitions;
    rep.traces = 1;
    rep.exhaustive = false;
    rep.distinct(&(cap, end.to_string(), n, fail_every));
    rep.distinct(&attempts_total);
    rep.flag("long-fixed-history");
    rep.sample(Json::obj().set("operations", n).set("write_attempts", attempts_total));
    rep
}
