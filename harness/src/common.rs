//! Shared result types: what one engine instance reports to the driver.
use crate::json::Json;
use std::collections::BTreeSet;
use std::collections::HashSet;
use std::hash::{Hash, Hasher};

/// A violation of one or more properties, with everything needed to replay it.
#[derive(Clone, Debug)]
pub struct Violation {
    /// Ids of the properties this observation contradicts.
    pub props: Vec<&'static str>,
    /// Short stable signature (used to match known findings).
    pub sig: String,
    /// Human readable explanation.
    pub what: String,
    /// Replay document (engine specific).
    pub replay: Json,
}

/// Result of one engine instance.
pub struct Report {
    pub instance: String,
    /// generic counts
    pub evaluations: u64,
    pub states: u64,
    pub transitions: u64,
    pub traces: u64,
    /// hashes of distinct non-trivial cases (instance-local)
    distinct: HashSet<u64>,
    pub exhaustive: bool,
    pub flags: BTreeSet<String>,
    pub samples: Vec<Json>,
    pub violations: Vec<Violation>,
    pub extra: Vec<(String, Json)>,
    /// machinery errors: never verdicts
    pub errors: Vec<String>,
    /// breaches of the property being decided (VH_PROP) recorded / found again
    relevant: usize,
    repeats: u64,
}

pub const ALL_PROPS: [&str; 20] = [
    "C01", "C02", "C03", "C04", "C05", "C06", "C07", "C08", "C09", "C10", "C11", "C12", "C13", "C14", "C15", "C16", "C17", "C18", "C19", "C20",
];

pub const MAX_VIOLATIONS_PER_INSTANCE: usize = 5;

/// The property being decided (set by the driver), if any.
pub fn only_prop() -> Option<&'static str> {
    static P: std::sync::OnceLock<Option<String>> = std::sync::OnceLock::new();
    P.get_or_init(|| std::env::var("VH_PROP").ok().filter(|p| !p.is_empty())).as_deref()
}
pub const MAX_SAMPLES_PER_INSTANCE: usize = 3;

impl Report {
    pub fn new(instance: &str) -> Report {
        Report {
            instance: instance.to_string(),
            evaluations: 0,
            states: 0,
            transitions: 0,
            traces: 0,
            distinct: HashSet::new(),
            exhaustive: true,
            flags: BTreeSet::new(),
            samples: vec![],
            violations: vec![],
            extra: vec![],
            errors: vec![],
            relevant: 0,
            repeats: 0,
        }
    }

    pub fn distinct<T: Hash>(&mut self, t: &T) -> bool {
        self.distinct.insert(hash_of(t))
    }

    pub fn distinct_count(&self) -> u64 {
        self.distinct.len() as u64
    }

    pub fn flag(&mut self, f: &str) {
        if !self.flags.contains(f) {
            self.flags.insert(f.to_string());
        }
    }

    pub fn sample(&mut self, j: Json) {
        if self.samples.len() < MAX_SAMPLES_PER_INSTANCE {
            self.samples.push(j);
        }
    }

    /// Record a violation (deduplicated on signature, capped).
    pub fn violation(&mut self, v: Violation) {
        // when one property is being decided, only its breaches count towards "enough recorded"
        let rel = match only_prop() {
            Some(p) => v.props.iter().any(|q| *q == p),
            None => true,
        };
        if self.violations.iter().any(|x| x.sig == v.sig && x.props == v.props) {
            if rel {
                self.repeats += 1;
            }
            return;
        }
        if self.violations.len() >= 4 * MAX_VIOLATIONS_PER_INSTANCE || (rel && self.relevant >= MAX_VIOLATIONS_PER_INSTANCE) {
            return;
        }
        if rel {
            self.relevant += 1;
        }
        self.violations.push(v);
    }

    /// Enough has been recorded: the instance has failed and need not be evaluated any further (the
    /// same breach found again and again, e.g. by every case of a sweep, also counts).
    pub fn full(&self) -> bool {
        self.relevant >= MAX_VIOLATIONS_PER_INSTANCE || self.repeats >= 200
    }

    pub fn extra(&mut self, k: &str, v: impl Into<Json>) {
        let v = v.into();
        if let Some(e) = self.extra.iter_mut().find(|e| e.0 == k) {
            e.1 = v;
        } else {
            self.extra.push((k.to_string(), v));
        }
    }

    /// Rebuild a report a child process printed.
    pub fn from_json(instance: &str, j: &Json) -> Report {
        let mut r = Report::new(instance);
        let n = |k: &str| j.get(k).and_then(|v| v.as_i128()).unwrap_or(0) as u64;
        r.evaluations = n("evaluations");
        r.states = n("states");
        r.transitions = n("transitions");
        r.traces = n("traces");
        for i in 0..n("distinct") {
            r.distinct.insert(i);
        }
        r.exhaustive = j.get("exhaustive").and_then(|b| b.as_bool()).unwrap_or(true);
        for f in j.get("flags").and_then(|a| a.as_arr()).unwrap_or(&[]) {
            if let Some(s) = f.as_str() {
                r.flags.insert(s.to_string());
            }
        }
        r.samples = j.get("samples").and_then(|a| a.as_arr()).map(|a| a.to_vec()).unwrap_or_default();
        for e in j.get("errors").and_then(|a| a.as_arr()).unwrap_or(&[]) {
            r.errors.push(e.as_str().unwrap_or("").to_string());
        }
        for v in j.get("violations").and_then(|a| a.as_arr()).unwrap_or(&[]) {
            let props: Vec<&'static str> = v
                .get("props")
                .and_then(|a| a.as_arr())
                .unwrap_or(&[])
                .iter()
                .filter_map(|p| p.as_str())
                .filter_map(|p| ALL_PROPS.iter().find(|q| **q == p).copied())
                .collect();
            r.violations.push(Violation {
                props,
                sig: v.str_at("sig"),
                what: v.str_at("what"),
                replay: v.get("replay").cloned().unwrap_or(Json::Null),
            });
        }
        r
    }

    pub fn to_json(&self) -> Json {
        let mut j = Json::obj()
            .set("instance", &self.instance)
            .set("evaluations", self.evaluations)
            .set("states", self.states)
            .set("transitions", self.transitions)
            .set("traces", self.traces)
            .set("distinct", self.distinct_count())
            .set("exhaustive", self.exhaustive)
            .set("flags", self.flags.iter().cloned().collect::<Vec<_>>())
            .set("samples", self.samples.clone())
            .set("errors", self.errors.clone())
            .set(
                "violations",
                self.violations
                    .iter()
                    .map(|v| {
                        Json::obj()
                            .set("props", v.props.iter().map(|p| p.to_string()).collect::<Vec<_>>())
                            .set("sig", &v.sig)
                            .set("what", &v.what)
                            .set("replay", v.replay.clone())
                    })
                    .collect::<Vec<_>>(),
            );
        let mut ex = Json::obj();
        for (k, v) in &self.extra {
            ex.put(k, v.clone());
        }
        j.put("extra", ex);
        j
    }
}

pub fn hash_of<T: Hash>(t: &T) -> u64 {
    // FNV-style deterministic hasher (std's default hasher is randomly keyed per process).
    struct Fnv(u64);
    impl Hasher for Fnv {
        fn finish(&self) -> u64 {
            self.0
        }
        fn write(&mut self, bytes: &[u8]) {
            for b in bytes {
                self.0 ^= *b as u64;
                self.0 = self.0.wrapping_mul(0x100000001b3);
            }
        }
    }
    let mut h = Fnv(0xcbf29ce484222325);
    t.hash(&mut h);
    h.finish()
}

/// Message of a panic payload.
pub fn payload_str(p: &(dyn std::any::Any + Send)) -> String {
    if let Some(s) = p.downcast_ref::<&str>() {
        s.to_string()
    } else if let Some(s) = p.downcast_ref::<String>() {
        s.clone()
    } else {
        "<non-string panic payload>".into()
    }
}

/// Letters used as metric bodies: a metric is one letter repeated `len` times, so that every
/// byte seen on the wire can be attributed to exactly one emit.
pub fn letter(i: usize) -> u8 {
    b"abcdefghijklmnopqrstuvwxyzABCDEFGHIJKLMNOPQRSTUVWXYZ0123456789"[i % 62]
}
