//! seqx/fmtlen: length sweeps for the line formatter (C01, C04). Every total line length from a
//! few bytes to beyond 1 KiB is produced (so that any size threshold in that range is crossed one
//! byte at a time), then lengths around every power of two up to 128 KiB and around the UDP
//! payload limit, going up and coming down again with an ordinary metric after every large one
//! (so that state kept between calls - scratch buffers, caches - shows up in the next line).
use crate::api::{self, ClientCfg, Form, Step, Val, ROWS, VT};
use crate::common::Report;
use crate::fmt::{check_case, values_for};
use crate::json::Json;
use crate::reffmt;
use std::time::Duration;

fn long_printing(vt: VT) -> Val {
    match vt {
        VT::I64 => Val::I64(i64::MIN),
        VT::I32 => Val::I32(i32::MIN),
        VT::U64 => Val::U64(u64::MAX),
        VT::U32 => Val::U32(u32::MAX),
        VT::F64 => Val::F64(0.1 + 0.2),
        VT::Dur => Val::Dur(Duration::new(18_000_000_000, 123_456_789)),
        VT::VU64 => Val::VU64(vec![u64::MAX, u64::MAX - 1, 12345678901234567]),
        VT::VF64 => Val::VF64(vec![0.1 + 0.2, -1.0e-7, 123456.789012345]),
        VT::VDur => Val::VDur(vec![Duration::new(18_000_000_000, 1), Duration::new(17_999_999_999, 999_999_999)]),
        VT::None => Val::None,
    }
}

pub fn big_lengths() -> Vec<usize> {
    let mut v: Vec<usize> = vec![];
    for k in 11..=17u32 {
        let p = 1usize << k;
        v.extend([p - 1, p, p + 1]);
    }
    v.extend([65506, 65507, 65508, 70000, 100_000]);
    v.sort();
    v.dedup();
    v
}

pub fn run(spec: &crate::Spec) -> Report {
    let mut rep = Report::new(&spec.raw);
    let row = &ROWS[spec.usize("row", 0)];
    let max_small = spec.usize("max", 1100);
    let part = spec.str("part", "key");
    let short_val = values_for(row.vt, false).into_iter().find(|v| reffmt::values(row, v).is_ok()).unwrap();
    let long_val = long_printing(row.vt);
    let steps = vec![
        Step::Tag("t".into(), "x".into()),
        Step::Rate(0.25),
        Step::Container("pc".into()),
        Step::Timestamp(1_700_000_000_000),
    ];
    match part.as_str() {
        "key" => {
            // the key grows byte by byte; default tags and per-call sections follow it on the line
            let cfg = ClientCfg {
                prefix: "p".into(),
                tags: vec![(Some("dk".into()), "dv".into()), (None, "db".into())],
                container: Some("dc".into()),
            };
            let rig = api::build(&cfg);
            let bare = ClientCfg {
                prefix: "".into(),
                ..Default::default()
            };
            let bare_rig = api::build(&bare);
            for l in 0..=max_small {
                let key = "k".repeat(l);
                for val in [&short_val, &long_val] {
                    for form in [Form::TrySend, Form::Send] {
                        check_case(&mut rep, &rig, &cfg, row, form, &key, val, &steps);
                    }
                    check_case(&mut rep, &rig, &cfg, row, Form::Plain, &key, val, &[]);
                    check_case(&mut rep, &bare_rig, &bare, row, Form::Plain, &key, val, &[]);
                }
                rep.distinct(&("key", row.name, l));
                if rep.full() {
                    return rep;
                }
            }
            // around every power of two and the datagram limit: up, then down, an ordinary metric after each
            let big = big_lengths();
            let order: Vec<usize> = big.iter().copied().chain(big.iter().rev().copied()).collect();
            for l in order {
                let key = "K".repeat(l);
                check_case(&mut rep, &rig, &cfg, row, Form::TrySend, &key, &long_val, &steps);
                check_case(&mut rep, &rig, &cfg, row, Form::TrySend, "after", &short_val, &steps);
                check_case(&mut rep, &bare_rig, &bare, row, Form::Plain, "plain-after", &long_val, &[]);
                rep.distinct(&("bigkey", row.name, l));
            }
            rep.flag("large-metric-then-ordinary-metric");
            rep.sample(Json::obj().set("entry_point", row.name).set("key_lengths", format!("0..={} then {:?} up and down", max_small, big_lengths())));
        }
        _ => {
            // default-tag values, per-call tag values, prefix and container of growing length
            let mut lens: Vec<usize> = (0..=300).collect();
            lens.extend([511, 512, 513, 4095, 4096, 4097, 65534, 65535, 65536, 65537, 70000]);
            for l in lens {
                let s = "v".repeat(l);
                let cfg = ClientCfg {
                    prefix: "p".into(),
                    tags: vec![(Some("a".into()), s.clone()), (None, "second".into()), (Some(s.clone()), "third".into())],
                    container: Some("dc".into()),
                };
                let rig = api::build(&cfg);
                for form in [Form::Plain, Form::TrySend] {
                    check_case(&mut rep, &rig, &cfg, row, form, "k", &short_val, if form == Form::Plain { &[] } else { &steps });
                }
                let cfg2 = ClientCfg {
                    prefix: s.clone(),
                    tags: vec![(None, "d".into())],
                    container: Some(s.clone()),
                };
                let rig2 = api::build(&cfg2);
                let st2 = vec![Step::Tag(s.clone(), "pv".into()), Step::TagValue(s.clone()), Step::Timestamp(7)];
                check_case(&mut rep, &rig2, &cfg2, row, Form::TrySend, "k", &long_val, &st2);
                check_case(&mut rep, &rig2, &cfg2, row, Form::Plain, "k", &short_val, &[]);
                rep.distinct(&("tag", row.name, l));
                if rep.full() {
                    return rep;
                }
            }
            rep.sample(Json::obj().set("entry_point", row.name).set("string_lengths", "0..=300, 511..513, 4095..4097, 65534..65537, 70000"));
        }
    }
    rep
}
