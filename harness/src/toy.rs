//! Self tests of the sched engine on toy programs with known answers.
use crate::common::hash_of;
use crate::explore::{explore, Bounds, Scenario, Verdict};
use crate::rt::{self, EndState};
use crate::wmodel::Breach;
use cadence::verif::sync::atomic::{AtomicU64, Ordering};
use cadence::verif::sync::Mutex;
use std::sync::Arc;

struct Toy {
    name: &'static str,
    make: fn() -> (Box<dyn FnOnce() + Send + 'static>, Box<dyn FnOnce(&EndState) -> Verdict + Send + 'static>),
}

impl Scenario for Toy {
    fn name(&self) -> String {
        self.name.to_string()
    }
    fn make(&self) -> (Box<dyn FnOnce() + Send + 'static>, Box<dyn FnOnce(&EndState) -> Verdict + Send + 'static>) {
        (self.make)()
    }
}

fn verdict(bad: Option<String>, outcome: u64) -> Verdict {
    Verdict {
        breaches: bad
            .into_iter()
            .map(|w| Breach {
                props: vec!["TOY"],
                sig: "toy".into(),
                what: w,
            })
            .collect(),
        outcome,
        flags: vec![],
        summary: String::new(),
    }
}

fn lost_update() -> (Box<dyn FnOnce() + Send + 'static>, Box<dyn FnOnce(&EndState) -> Verdict + Send + 'static>) {
    let a = Arc::new(AtomicU64::new(0));
    let a2 = a.clone();
    let body = Box::new(move || {
        let mut ts = vec![];
        for _ in 0..2 {
            let a = a2.clone();
            ts.push(rt::spawn("inc", move || {
                let v = a.load(Ordering::Acquire);
                a.store(v + 1, Ordering::Release);
            }));
        }
        for t in ts {
            rt::join(t);
        }
    });
    let judge = Box::new(move |_e: &EndState| {
        let v = a.load(Ordering::Relaxed);
        verdict(if v != 2 { Some(format!("lost update: {}", v)) } else { None }, v)
    });
    (body, judge)
}

fn atomic_inc() -> (Box<dyn FnOnce() + Send + 'static>, Box<dyn FnOnce(&EndState) -> Verdict + Send + 'static>) {
    let a = Arc::new(AtomicU64::new(0));
    let a2 = a.clone();
    let body = Box::new(move || {
        let mut ts = vec![];
        for _ in 0..3 {
            let a = a2.clone();
            ts.push(rt::spawn("inc", move || {
                a.fetch_add(1, Ordering::Relaxed);
            }));
        }
        for t in ts {
            rt::join(t);
        }
    });
    let judge = Box::new(move |_e: &EndState| {
        let v = a.load(Ordering::Relaxed);
        verdict(if v != 3 { Some(format!("lost update: {}", v)) } else { None }, v)
    });
    (body, judge)
}

fn lock_order() -> (Box<dyn FnOnce() + Send + 'static>, Box<dyn FnOnce(&EndState) -> Verdict + Send + 'static>) {
    let m = Arc::new((Mutex::new(0u32), Mutex::new(0u32)));
    let m2 = m.clone();
    let body = Box::new(move || {
        let a = m2.clone();
        let t1 = rt::spawn("ab", move || {
            let _x = a.0.lock().unwrap();
            let _y = a.1.lock().unwrap();
        });
        let b = m2.clone();
        let t2 = rt::spawn("ba", move || {
            let _y = b.1.lock().unwrap();
            let _x = b.0.lock().unwrap();
        });
        rt::join(t1);
        rt::join(t2);
    });
    let judge = Box::new(move |e: &EndState| verdict(if e.deadlock { Some(format!("deadlock: {:?}", e.unfinished())) } else { None }, e.deadlock as u64));
    (body, judge)
}

fn mp(release: bool) -> (Box<dyn FnOnce() + Send + 'static>, Box<dyn FnOnce(&EndState) -> Verdict + Send + 'static>) {
    let flag = Arc::new(AtomicU64::new(0));
    let cell_addr = Arc::as_ptr(&flag) as usize + 4096; // any address standing for the data
    let f2 = flag.clone();
    let body = Box::new(move || {
        let f = f2.clone();
        let w = rt::spawn("writer", move || {
            cadence::verif::cell::write(cell_addr);
            f.store(1, if release { Ordering::Release } else { Ordering::Relaxed });
        });
        let f = f2.clone();
        let r = rt::spawn("reader", move || {
            if f.load(Ordering::Acquire) == 1 {
                cadence::verif::cell::read(cell_addr);
            }
        });
        rt::join(w);
        rt::join(r);
    });
    let judge = Box::new(move |e: &EndState| verdict(e.races.first().map(|r| r.what.clone()), hash_of(&e.races.len())));
    (body, judge)
}

fn mp_rel() -> (Box<dyn FnOnce() + Send + 'static>, Box<dyn FnOnce(&EndState) -> Verdict + Send + 'static>) {
    mp(true)
}
fn mp_rlx() -> (Box<dyn FnOnce() + Send + 'static>, Box<dyn FnOnce(&EndState) -> Verdict + Send + 'static>) {
    mp(false)
}

pub fn selftest() -> bool {
    let unb = Bounds {
        preemptions: usize::MAX,
        deviations: 0,
        max_execs: 1_000_000,
        delay: false,
    };
    let p0 = Bounds { preemptions: 0, ..unb };
    let cases: Vec<(Toy, Bounds, bool)> = vec![
        (Toy { name: "lost-update P=0", make: lost_update }, p0, false),
        (Toy { name: "lost-update unbounded", make: lost_update }, unb, true),
        (Toy { name: "atomic-inc unbounded", make: atomic_inc }, unb, false),
        (Toy { name: "lock-order unbounded", make: lock_order }, unb, true),
        (Toy { name: "message-passing release/acquire", make: mp_rel }, unb, false),
        (Toy { name: "message-passing relaxed store", make: mp_rlx }, unb, true),
    ];
    let mut ok = true;
    for (toy, b, expect) in cases {
        let r = explore(&toy, b, false);
        let found = r.first_violation.is_some();
        let good = found == expect && r.error.is_none() && r.complete;
        println!(
            "selftest {:40} execs={:6} outcomes={:3} violation={} expected={} {}{}",
            toy.name,
            r.execs,
            r.outcomes.len(),
            found,
            expect,
            if good { "PASS" } else { "FAIL" },
            r.error.map(|e| format!(" error: {}", e)).unwrap_or_default()
        );
        ok &= good;
    }
    ok
}
