//! sched/mutex: threads emitting and flushing concurrently through one shared buffered sink
//! (C12), all interleavings; the combined datagram stream is judged for framing and conservation.
//!
//! Program text (spec key `prog`): one op string per thread separated by '.', ops `E` emit the
//! thread's next metric, `F` flush, `R` drain the receiver (lets a bounded spy channel accept
//! writes again). Main joins all threads, drains, flushes, drains again and then drops the sink.
use crate::common::{hash_of, Report};
use crate::explore::{self, Bounds, Scenario, Verdict};
use crate::rt::{self, EndState};
use crate::sock::Rx;
use crate::wmodel::Breach;
use cadence::prelude::*;
use cadence::{BufferedSpyMetricSink, BufferedUnixMetricSink, MetricSink, StatsdClient};
use std::os::unix::net::UnixDatagram;
use std::panic::{self, AssertUnwindSafe};
use std::sync::atomic::{AtomicUsize, Ordering};
use std::sync::{Arc, Mutex};

#[derive(Clone, Debug)]
enum Ev {
    Emit { thread: usize, metric: String, call: usize, ret: usize, ok: bool },
    Flush { thread: usize, call: usize, ret: usize, ok: bool, seen: usize },
    Panic(String),
}

#[derive(Clone)]
pub struct MutexScn {
    pub sink: String,
    pub cap: usize,
    pub queue: Option<usize>,
    pub via_client: bool,
    /// the sink's refusals are reported with kind WouldBlock (as a non-blocking socket would)
    pub would_block: bool,
    pub prog: Vec<String>,
    /// scheduling points also right after every unlock / send / store / read-modify-write
    pub post_points: bool,
    pub text: String,
}

pub fn scenario(spec: &crate::Spec) -> MutexScn {
    MutexScn {
        would_block: spec.usize("wb", 0) == 1,
        sink: spec.str("sink", "spy"),
        cap: spec.usize("cap", 7),
        queue: spec.opt_usize("q"),
        via_client: spec.str("via", "sink") == "client",
        prog: spec.str("prog", "E.E").split('.').map(|s| s.to_string()).collect(),
        post_points: spec.usize("pp", 0) == 1,
        text: spec.raw.clone(),
    }
}

enum Target {
    Sink(Arc<dyn MetricSink + Send + Sync>),
    Client(Arc<StatsdClient>),
}

impl Target {
    fn emit(&self, name: &str) -> Result<String, String> {
        match self {
            Target::Sink(s) => s.emit(name).map(|_| name.to_string()).map_err(|e| e.to_string()),
            Target::Client(c) => c.count(name, 1).map(|m| cadence::Metric::as_metric_str(&m).to_string()).map_err(|e| e.to_string()),
        }
    }
    fn flush(&self) -> Result<(), String> {
        match self {
            Target::Sink(s) => s.flush().map_err(|e| e.to_string()),
            Target::Client(c) => c.flush().map_err(|e| e.to_string()),
        }
    }
}

struct Shared {
    log: Mutex<Vec<Ev>>,
    seq: AtomicUsize,
    /// every datagram received so far, in order
    wire: Mutex<Vec<Vec<u8>>>,
}

enum Recv {
    Spy(crossbeam_channel::Receiver<Vec<u8>>),
    Sock(Rx),
}

impl Recv {
    fn drain_into(&self, sh: &Shared) {
        let got: Vec<Vec<u8>> = match self {
            Recv::Spy(r) => r.try_iter().collect(),
            Recv::Sock(rx) => rx.drain().unwrap_or_default(),
        };
        sh.wire.lock().unwrap().extend(got);
    }
}

impl Scenario for MutexScn {
    fn name(&self) -> String {
        self.text.clone()
    }

    fn post_points(&self) -> bool {
        self.post_points
    }

    fn make(&self) -> (Box<dyn FnOnce() + Send + 'static>, Box<dyn FnOnce(&EndState) -> Verdict + Send + 'static>) {
        let sh = Arc::new(Shared {
            log: Mutex::new(vec![]),
            seq: AtomicUsize::new(0),
            wire: Mutex::new(vec![]),
        });
        let scn = self.clone();
        let sh2 = sh.clone();
        let body = Box::new(move || {
            let sh = sh2;
            let (recv, sink): (Recv, Arc<dyn MetricSink + Send + Sync>) = match scn.sink.as_str() {
                "unix" => {
                    let rx = Rx::unix("c12");
                    let s = BufferedUnixMetricSink::with_capacity(rx.path(), UnixDatagram::unbound().unwrap(), scn.cap);
                    (Recv::Sock(rx), Arc::new(s))
                }
                "udp" => {
                    let rx = Rx::udp(false).unwrap();
                    let s = cadence::BufferedUdpMetricSink::with_capacity(rx.addr(), std::net::UdpSocket::bind("127.0.0.1:0").unwrap(), scn.cap).unwrap();
                    (Recv::Sock(rx), Arc::new(s))
                }
                _ => {
                    let (r, s) = BufferedSpyMetricSink::with_capacity(scn.queue, Some(scn.cap));
                    (Recv::Spy(r), Arc::new(s))
                }
            };
            let recv = Arc::new(recv);
            let target = Arc::new(if scn.via_client {
                struct Fwd(Arc<dyn MetricSink + Send + Sync>, bool);
                impl MetricSink for Fwd {
                    fn emit(&self, m: &str) -> std::io::Result<usize> {
                        let r = self.0.emit(m);
                        if self.1 {
                            return r.map_err(|e| std::io::Error::new(std::io::ErrorKind::WouldBlock, e));
                        }
                        r
                    }
                    fn flush(&self) -> std::io::Result<()> {
                        self.0.flush()
                    }
                }
                impl std::panic::RefUnwindSafe for Fwd {}
                Target::Client(Arc::new(StatsdClient::from_sink("", Fwd(sink.clone(), scn.would_block))))
            } else {
                Target::Sink(sink.clone())
            });
            let mut tids = vec![];
            for (ti, ops) in scn.prog.iter().enumerate() {
                let (sh, target, recv, ops) = (sh.clone(), target.clone(), recv.clone(), ops.clone());
                tids.push(rt::spawn("worker", move || {
                    let mut k = 0;
                    for op in ops.bytes() {
                        let r = panic::catch_unwind(AssertUnwindSafe(|| match op {
                            b'E' | b'L' | b'H' => {
                                // 'L' emits a metric one byte longer than 'E', 'H' one of exactly 64 KiB
                                let mut name = format!("{}{}{}", (b'a' + ti as u8) as char, k, if op == b'L' { "x" } else { "" });
                                if op == b'H' {
                                    name.push_str(&"h".repeat(65536 - name.len()));
                                }
                                let call = sh.seq.fetch_add(1, Ordering::SeqCst);
                                let r = target.emit(&name);
                                let ret = sh.seq.fetch_add(1, Ordering::SeqCst);
                                let ok = r.is_ok();
                                sh.log.lock().unwrap().push(Ev::Emit {
                                    thread: ti,
                                    metric: r.unwrap_or(name),
                                    call,
                                    ret,
                                    ok,
                                });
                            }
                            b'F' => {
                                let call = sh.seq.fetch_add(1, Ordering::SeqCst);
                                let r = target.flush();
                                recv.drain_into(&sh);
                                let seen = sh.wire.lock().unwrap().len();
                                let ret = sh.seq.fetch_add(1, Ordering::SeqCst);
                                sh.log.lock().unwrap().push(Ev::Flush {
                                    thread: ti,
                                    call,
                                    ret,
                                    ok: r.is_ok(),
                                    seen,
                                });
                            }
                            b'R' => {
                                rt::yield_point("drain");
                                recv.drain_into(&sh);
                            }
                            _ => {}
                        }));
                        if let Err(p) = r {
                            sh.log.lock().unwrap().push(Ev::Panic(crate::common::payload_str(&*p)));
                        }
                        if op == b'E' || op == b'L' || op == b'H' {
                            k += 1;
                        }
                    }
                }));
            }
            for t in tids {
                rt::join(t);
            }
            // quiescent: make room, flush, and look at the wire BEFORE the sink is dropped
            recv.drain_into(&sh);
            let call = sh.seq.fetch_add(1, Ordering::SeqCst);
            let r = panic::catch_unwind(AssertUnwindSafe(|| target.flush()));
            recv.drain_into(&sh);
            let seen = sh.wire.lock().unwrap().len();
            let ret = sh.seq.fetch_add(1, Ordering::SeqCst);
            match r {
                Ok(r) => sh.log.lock().unwrap().push(Ev::Flush {
                    thread: 99,
                    call,
                    ret,
                    ok: r.is_ok(),
                    seen,
                }),
                Err(p) => sh.log.lock().unwrap().push(Ev::Panic(crate::common::payload_str(&*p))),
            }
            drop(target);
            drop(sink);
            recv.drain_into(&sh);
        });
        let scn = self.clone();
        let judge = Box::new(move |end: &EndState| judge(&scn, end, &sh));
        (body, judge)
    }
}

fn br(out: &mut Vec<Breach>, props: &[&'static str], sig: &str, what: String) {
    out.push(Breach {
        props: props.to_vec(),
        sig: sig.to_string(),
        what,
    });
}

fn judge(scn: &MutexScn, end: &EndState, sh: &Shared) -> Verdict {
    let log = sh.log.lock().unwrap().clone();
    let wire = sh.wire.lock().unwrap().clone();
    let mut out = vec![];
    let mut flags: Vec<&'static str> = vec![];
    for (t, p) in &end.panics {
        br(&mut out, &["C12", "C20"], "panic", format!("thread {} panicked: {}", t, p));
    }
    for e in &log {
        if let Ev::Panic(p) = e {
            br(&mut out, &["C12", "C20"], "panic", format!("an emit/flush panicked: {}", p));
        }
    }
    if end.deadlock || end.horizon {
        br(&mut out, &["C12"], "stuck", format!("the program did not finish: {:?}", end.unfinished()));
    }
    // framing of every datagram: whole lines, within capacity, or one oversize metric alone
    let acked: Vec<(usize, String, usize, usize)> = log
        .iter()
        .filter_map(|e| match e {
            Ev::Emit { thread, metric, call, ret, ok: true } => Some((*thread, metric.clone(), *call, *ret)),
            _ => None,
        })
        .collect();
    let known: Vec<String> = log
        .iter()
        .filter_map(|e| match e {
            Ev::Emit { metric, .. } => Some(metric.clone()),
            _ => None,
        })
        .collect();
    let mut lines_per_dgram: Vec<Vec<String>> = vec![];
    for d in &wire {
        let text = String::from_utf8_lossy(d).to_string();
        if d.len() > scn.cap && !(known.contains(&text)) {
            br(&mut out, &["C12", "C05"], "datagram-exceeds-capacity", format!("datagram {:?} is larger than the capacity {}", text, scn.cap));
        }
        if known.contains(&text) && text.len() + 1 > scn.cap {
            lines_per_dgram.push(vec![text]);
            continue;
        }
        if !text.ends_with('\n') {
            br(&mut out, &["C12", "C05"], "partial-line", format!("datagram {:?} does not end with a complete line", text));
        }
        let ls: Vec<String> = text.trim_end_matches('\n').split('\n').map(|s| s.to_string()).collect();
        for l in &ls {
            if !known.contains(l) {
                br(&mut out, &["C12", "C05"], "torn-line", format!("datagram {:?} contains {:?}, which is not a whole metric", text, l));
            }
        }
        lines_per_dgram.push(ls);
    }
    if lines_per_dgram.iter().any(|l| l.len() >= 2) {
        flags.push("datagram-with-two-metrics");
    }
    // conservation at the quiescent point: after the final successful flush every acknowledged
    // metric is on the wire exactly once
    let final_flush = log.iter().rev().find_map(|e| match e {
        Ev::Flush { thread: 99, ok, seen, .. } => Some((*ok, *seen)),
        _ => None,
    });
    let stream_at = |n: usize| -> Vec<String> { lines_per_dgram.iter().take(n).flatten().cloned().collect() };
    if let Some((true, seen)) = final_flush {
        let s = stream_at(seen);
        for (t, m, _, _) in &acked {
            let n = s.iter().filter(|x| *x == m).count();
            if n != 1 {
                br(&mut out, &["C12", "C06"], "acked-metric-count", format!("metric {} (thread {}) was acknowledged but appears {} times on the wire after the final successful flush; wire: {:?}", m, t, n, s));
            }
        }
    } else if final_flush.is_some() {
        flags.push("final-flush-failed");
    }
    // every successful flush delivers what was acknowledged before it began
    for e in &log {
        if let Ev::Flush { thread, call, ok: true, seen, .. } = e {
            let s = stream_at(*seen);
            for (t, m, _, ret) in &acked {
                if ret < call && !s.contains(m) {
                    br(&mut out, &["C12", "C06"], "flush-left-metric-behind", format!("flush on thread {} returned Ok but metric {} (thread {}), acknowledged before that flush began, is not on the wire; wire then: {:?}", thread, m, t, s));
                }
            }
            if *thread != 99 {
                flags.push("concurrent-flush");
            }
        }
        if let Ev::Flush { ok: false, .. } | Ev::Emit { ok: false, .. } = e {
            flags.push("write-refused");
        }
    }
    // after the drop: exactly once, and each thread's metrics in program order
    let all = stream_at(usize::MAX);
    for (t, m, _, _) in &acked {
        let n = all.iter().filter(|x| *x == m).count();
        if n > 1 {
            br(&mut out, &["C12", "C06"], "metric-duplicated", format!("metric {} (thread {}) appears {} times on the wire: {:?}", m, t, n, all));
        }
        if n == 0 && final_flush.map(|f| f.0).unwrap_or(false) {
            br(&mut out, &["C12", "C06"], "metric-lost", format!("metric {} (thread {}) was acknowledged but never reached the wire: {:?}", m, t, all));
        }
    }
    for t in 0..scn.prog.len() {
        let mine: Vec<&String> = acked.iter().filter(|a| a.0 == t && a.1.len() + 1 <= scn.cap).map(|a| &a.1).collect();
        let pos: Vec<Option<usize>> = mine.iter().map(|m| all.iter().position(|x| x == *m)).collect();
        for w in pos.windows(2) {
            if let (Some(a), Some(b)) = (w[0], w[1]) {
                if a > b {
                    br(&mut out, &["C12", "C06"], "thread-order-broken", format!("thread {}'s metrics left out of program order: {:?}", t, all));
                }
            }
        }
    }
    if scn.sink == "unix" || scn.sink == "udp" {
        // on the socket sinks the same promises are part of C13 ("send what remains when flushed")
        for b in out.iter_mut() {
            if !b.props.contains(&"C13") {
                b.props.push("C13");
            }
        }
    }
    let sig: Vec<String> = log
        .iter()
        .map(|e| match e {
            Ev::Emit { metric, ok, .. } => format!("E{}{}", metric, ok),
            Ev::Flush { thread, ok, seen, .. } => format!("F{}{}{}", thread, ok, seen),
            Ev::Panic(_) => "P".into(),
        })
        .collect();
    out.dedup_by(|a, b| a.sig == b.sig);
    Verdict {
        breaches: out,
        outcome: hash_of(&(sig, wire.clone())),
        flags,
        summary: format!("wire={:?} acked={:?}", wire.iter().map(|d| String::from_utf8_lossy(d).to_string()).collect::<Vec<_>>(), acked.iter().map(|a| a.1.clone()).collect::<Vec<_>>()),
    }
}

pub fn run(spec: &crate::Spec) -> Report {
    let mut rep = Report::new(&spec.raw);
    let scn = scenario(spec);
    let b = Bounds {
        preemptions: spec.opt_usize("D").or(spec.opt_usize("P")).unwrap_or(usize::MAX),
        deviations: 0,
        max_execs: spec.usize("max", 2_000_000) as u64,
        delay: spec.opt_usize("D").is_some(),
    };
    explore::check(&mut rep, &scn, b, &spec.raw);
    rep.extra("preemption_bound_completed", if b.preemptions == usize::MAX { 99 } else { b.preemptions });
    rep
}

// ---------------------------------------------------------------------------------------------
// C06 through a queuing wrapper: StatsdClient -> QueuingMetricSink -> logging adapter ->
// BufferedSpyMetricSink. `client.flush()` runs on the caller's thread while the worker may be
// inside the buffered sink.

#[derive(Clone, Debug)]
enum QEv {
    InnerRet { metric: String, ok: bool, seq: usize },
    Flush { call: usize, ret: usize, ok: bool, seen: usize },
    Final { seen: usize },
    Refused(String),
}

#[derive(Clone)]
pub struct QFlushScn {
    pub cap: usize,
    /// build through the builder with an error handler configured
    pub handler: bool,
    /// bounded spy channel behind the buffered sink: writes are refused while it is full
    pub spyq: Option<usize>,
    pub qcap: Option<usize>,
    pub prog: String,
    pub text: String,
}

pub fn qflush_scenario(spec: &crate::Spec) -> QFlushScn {
    QFlushScn {
        cap: spec.usize("cap", 16),
        handler: spec.usize("h", 0) == 1,
        spyq: spec.opt_usize("sq"),
        qcap: spec.opt_usize("qcap"),
        prog: spec.str("prog", "EEF"),
        text: spec.raw.clone(),
    }
}

struct QShared {
    log: Mutex<Vec<QEv>>,
    seq: AtomicUsize,
    wire: Mutex<Vec<Vec<u8>>>,
    accepted: AtomicUsize,
    inner_done: AtomicUsize,
}

struct Logging {
    inner: BufferedSpyMetricSink,
    sh: Arc<QShared>,
}

impl MetricSink for Logging {
    fn emit(&self, m: &str) -> std::io::Result<usize> {
        let r = self.inner.emit(m);
        let seq = self.sh.seq.fetch_add(1, Ordering::SeqCst);
        self.sh.log.lock().unwrap().push(QEv::InnerRet {
            metric: m.to_string(),
            ok: r.is_ok(),
            seq,
        });
        self.sh.inner_done.fetch_add(1, Ordering::SeqCst);
        r
    }
    fn flush(&self) -> std::io::Result<()> {
        self.inner.flush()
    }
}

impl Scenario for QFlushScn {
    fn name(&self) -> String {
        self.text.clone()
    }

    fn max_steps(&self) -> usize {
        20000 + 60 * self.prog.len()
    }

    fn make(&self) -> (Box<dyn FnOnce() + Send + 'static>, Box<dyn FnOnce(&EndState) -> Verdict + Send + 'static>) {
        let sh = Arc::new(QShared {
            log: Mutex::new(vec![]),
            seq: AtomicUsize::new(0),
            wire: Mutex::new(vec![]),
            accepted: AtomicUsize::new(0),
            inner_done: AtomicUsize::new(0),
        });
        let scn = self.clone();
        let sh2 = sh.clone();
        let body = Box::new(move || {
            let sh = sh2;
            let (rx, spy) = BufferedSpyMetricSink::with_capacity(scn.spyq, Some(scn.cap));
            let logging = Logging { inner: spy, sh: sh.clone() };
            let q = if scn.handler {
                let mut b = cadence::QueuingMetricSink::builder().with_error_handler(|_e| {});
                if let Some(c) = scn.qcap {
                    b = b.with_capacity(c);
                }
                b.build(logging)
            } else {
                match scn.qcap {
                    Some(c) => cadence::QueuingMetricSink::with_capacity(logging, c),
                    None => cadence::QueuingMetricSink::from(logging),
                }
            };
            // one more handle of the queuing sink per 'X' in the program, made before the client takes
            // the original; 'X' drops one of them while the client is in use
            let mut clones: Vec<cadence::QueuingMetricSink> = scn.prog.bytes().filter(|b| *b == b'X').map(|_| q.clone()).collect();
            let client = StatsdClient::from_sink("", q);
            let mut k = 0;
            for op in scn.prog.bytes() {
                match op {
                    b'X' => {
                        drop(clones.pop());
                    }
                    b'E' => {
                        let key = format!("k{:04}", k);
                        k += 1;
                        match client.count(&key, 1) {
                            Ok(_) => {
                                sh.accepted.fetch_add(1, Ordering::SeqCst);
                            }
                            Err(e) => sh.log.lock().unwrap().push(QEv::Refused(e.to_string())),
                        }
                    }
                    b'W' => {
                        let s = sh.clone();
                        rt::wait_until("inner-emits-done", move || s.inner_done.load(Ordering::SeqCst) >= s.accepted.load(Ordering::SeqCst));
                    }
                    b'F' => {
                        let call = sh.seq.fetch_add(1, Ordering::SeqCst);
                        let r = client.flush();
                        sh.wire.lock().unwrap().extend(rx.try_iter());
                        let seen = sh.wire.lock().unwrap().len();
                        let ret = sh.seq.fetch_add(1, Ordering::SeqCst);
                        sh.log.lock().unwrap().push(QEv::Flush {
                            call,
                            ret,
                            ok: r.is_ok(),
                            seen,
                        });
                    }
                    _ => {}
                }
            }
            drop(client);
            rt::wait_quiescent();
            sh.wire.lock().unwrap().extend(rx.try_iter());
            let seen = sh.wire.lock().unwrap().len();
            sh.log.lock().unwrap().push(QEv::Final { seen });
        });
        let refusing = self.spyq.is_some();
        let cap = self.cap;
        let judge = Box::new(move |end: &EndState| {
            let log = sh.log.lock().unwrap().clone();
            let wire = sh.wire.lock().unwrap().clone();
            let mut out: Vec<Breach> = vec![];
            let mut flags: Vec<&'static str> = vec![];
            for (t, p) in &end.panics {
                br(&mut out, &["C06", "C20"], "panic", format!("thread {} panicked: {}", t, p));
            }
            let lines_upto = |n: usize| -> Vec<String> {
                wire.iter()
                    .take(n)
                    .flat_map(|d| String::from_utf8_lossy(d).trim_end_matches('\n').split('\n').map(|s| s.to_string()).collect::<Vec<_>>())
                    .collect()
            };
            let inner: Vec<(String, usize)> = log
                .iter()
                .filter_map(|e| match e {
                    QEv::InnerRet { metric, ok: true, seq } => Some((metric.clone(), *seq)),
                    _ => None,
                })
                .collect();
            for e in &log {
                match e {
                    QEv::Flush { call, ok: true, seen, .. } => {
                        let have = lines_upto(*seen);
                        for (m, s) in &inner {
                            if s < call && !have.contains(m) {
                                br(&mut out, &["C06"], "queue-flush-left-metric-behind", format!("client.flush() through the queuing sink returned Ok, but {:?}, which the buffered sink had accepted before the flush began, is not on the wire ({:?})", m, have));
                            }
                        }
                        if inner.iter().any(|(_, s)| s < call) {
                            flags.push("flush-after-inner-emit");
                        }
                    }
                    QEv::Flush { ok: false, .. } => {
                        if refusing {
                            flags.push("flush-refused-by-full-channel");
                        } else {
                            br(&mut out, &["C06"], "queue-flush-failed", "client.flush() through the queuing sink failed without any socket failure".into());
                        }
                    }
                    QEv::Final { seen } => {
                        let have = lines_upto(*seen);
                        // one producer: its metrics leave the buffered sink in program order
                        let fitting: Vec<&String> = have.iter().filter(|l| inner.iter().any(|(m, _)| m == *l)).collect();
                        let mut sorted = fitting.clone();
                        sorted.sort();
                        if fitting != sorted {
                            br(&mut out, &["C06", "C12", "C08"], "queue-flush-reordered", format!("one thread emitted its metrics in the order {:?} but they left the buffered sink in the order {:?}", sorted, fitting));
                        }
                        for (m, _) in &inner {
                            let n = have.iter().filter(|x| *x == m).count();
                            // with a refusing channel the last write (at drop) may legitimately be lost
                            if n > 1 || (n == 0 && !refusing) {
                                br(&mut out, &["C06", "C09", "C12"], "queue-drop-conservation", format!("after the client was dropped and everything came to rest, {:?} appears {} times on the wire ({:?})", m, n, have));
                            }
                        }
                        // greedy packing (C19): the buffered sink writes only when the next metric does
                        // not fit, on a flush, or when it is dropped. In-order packing of the lines that
                        // left needs `need` datagrams; every flush can add at most one more.
                        let mut need = 0usize;
                        let mut fill = 0usize;
                        for l in &have {
                            let n = l.len() + 1;
                            if n > cap {
                                need += if fill > 0 { 2 } else { 1 };
                                fill = 0;
                            } else if fill + n > cap {
                                need += 1;
                                fill = n;
                            } else {
                                fill += n;
                            }
                            if fill == cap {
                                need += 1;
                                fill = 0;
                            }
                        }
                        if fill > 0 {
                            need += 1;
                        }
                        let flushes = log.iter().filter(|e| matches!(e, QEv::Flush { .. })).count();
                        if *seen > need + flushes && !refusing {
                            br(&mut out, &["C19"], "queue-wrapped-sink-not-greedy", format!("{} metrics left the buffered sink (capacity {}) behind the queuing sink in {} datagrams, but in-order packing needs {} and only {} flushes were requested ({:?})", have.len(), cap, seen, need, flushes, wire.iter().map(|d| String::from_utf8_lossy(d).to_string()).collect::<Vec<_>>()));
                        }
                        flags.push("final-wire-checked");
                    }
                    _ => {}
                }
            }
            if !log.iter().any(|e| matches!(e, QEv::Final { .. })) {
                br(&mut out, &["C06", "C09", "C12"], "stuck", format!("the program did not come to rest (metrics accepted by the client never reached the buffered sink?): {:?}", end.unfinished()));
            }
            let sig: Vec<String> = log
                .iter()
                .map(|e| match e {
                    QEv::InnerRet { metric, ok, .. } => format!("I{}{}", metric, ok),
                    QEv::Flush { ok, seen, .. } => format!("F{}{}", ok, seen),
                    QEv::Final { seen } => format!("Z{}", seen),
                    QEv::Refused(_) => "R".into(),
                })
                .collect();
            out.dedup_by(|a, b| a.sig == b.sig);
            Verdict {
                breaches: out,
                outcome: hash_of(&(sig, wire.clone())),
                flags,
                summary: format!("wire={:?}", wire.iter().map(|d| String::from_utf8_lossy(d).to_string()).collect::<Vec<_>>()),
            }
        });
        (body, judge)
    }
}

pub fn run_qflush(spec: &crate::Spec) -> Report {
    let mut rep = Report::new(&spec.raw);
    let scn = qflush_scenario(spec);
    let b = Bounds {
        preemptions: spec.opt_usize("D").or(spec.opt_usize("P")).unwrap_or(usize::MAX),
        deviations: 0,
        max_execs: spec.usize("max", 1_000_000) as u64,
        delay: spec.opt_usize("D").is_some(),
    };
    explore::check(&mut rep, &scn, b, &spec.raw);
    rep.extra("preemption_bound_completed", if b.preemptions == usize::MAX { 99 } else { b.preemptions });
    rep
}
