//! seqx/macros: the `statsd_*!` macros against the explicit tagged quiet send on a twin client
//! (C17). The global client can be set once per process, so every configuration runs in a fresh
//! child process (`vh child probe:cfg=<X>`).
use crate::api::{self, failure_of, ClientCfg, Failure, RecSink, Row, Step, Val, ROWS};
use crate::common::{Report, Violation};
use crate::json::Json;
use crate::reffmt;
use cadence::prelude::*;
use cadence::{StatsdClient, StatsdClientBuilder};
use std::panic::{self, AssertUnwindSafe};
use std::sync::atomic::{AtomicUsize, Ordering::SeqCst};
use std::sync::{Arc, Mutex};
use std::time::Duration;

static K: AtomicUsize = AtomicUsize::new(0);
static V: AtomicUsize = AtomicUsize::new(0);
static TK: [AtomicUsize; 3] = [AtomicUsize::new(0), AtomicUsize::new(0), AtomicUsize::new(0)];
static TV: [AtomicUsize; 3] = [AtomicUsize::new(0), AtomicUsize::new(0), AtomicUsize::new(0)];

struct Side {
    client: Option<Arc<StatsdClient>>,
    sink: RecSink,
    handler: Arc<Mutex<Vec<Failure>>>,
}

/// Answers of an unreliable sink, the same for the global client and its twin.
const ALTERNATING: [Option<std::io::ErrorKind>; 7] = [
    Some(std::io::ErrorKind::BrokenPipe),
    None,
    Some(std::io::ErrorKind::Interrupted),
    Some(std::io::ErrorKind::WouldBlock),
    None,
    None,
    Some(std::io::ErrorKind::Other),
];

fn build(cfg: &ClientCfg, failing: bool, with_handler: bool) -> (StatsdClient, RecSink, Arc<Mutex<Vec<Failure>>>) {
    let sink = RecSink::default();
    if cfg.prefix == "alt" {
        let mut s = sink.0.lock().unwrap();
        for i in 0..2_000 {
            s.script.push_back(match ALTERNATING[i % ALTERNATING.len()] {
                Some(k) => api::Answer::Refuse(k),
                None => api::Answer::Accept,
            });
        }
    }
    if failing {
        // refuse everything
        let mut s = sink.0.lock().unwrap();
        for _ in 0..10_000 {
            s.script.push_back(api::Answer::Refuse(std::io::ErrorKind::BrokenPipe));
        }
    }
    let handler: Arc<Mutex<Vec<Failure>>> = Arc::new(Mutex::new(vec![]));
    let mut b: StatsdClientBuilder = StatsdClient::builder(&cfg.prefix, sink.clone());
    if with_handler {
        let h2 = handler.clone();
        b = b.with_error_handler(move |e| h2.lock().unwrap().push(failure_of(&e)));
    }
    for (k, v) in &cfg.tags {
        b = match k {
            Some(k) => b.with_tag(k, v),
            None => b.with_tag_value(v),
        };
    }
    if let Some(c) = &cfg.container {
        b = b.with_container_id(c);
    }
    (b.build(), sink, handler)
}

struct Ctx {
    rep: Report,
    cfg: ClientCfg,
    cfg_name: String,
    global: Side,
    twin: Side,
    /// is a global client set in this process?
    set: bool,
    failing: bool,
    with_handler: bool,
    /// a second client passed to a second (ignored) set_global_default
    second_sink: Option<RecSink>,
}

impl Ctx {
    fn bad(&mut self, props: &[&'static str], sig: &str, what: String) {
        self.rep.violation(Violation {
            props: props.to_vec(),
            sig: format!("macros/{}", sig),
            what: format!("[configuration {}] {}", self.cfg_name, what),
            replay: Json::obj().set("engine", "probe").set("cfg", &self.cfg_name).set("what", what),
        });
    }

    fn case(&mut self, mac: &str, row: &Row, val: &Val, ntags: usize, run_macro: &dyn Fn(), run_twin: &dyn Fn(&StatsdClient)) {
        self.rep.evaluations += 1;
        self.rep.distinct(&(self.cfg_name.clone(), mac.to_string(), format!("{:?}", val), ntags));
        for a in [&K, &V].into_iter().chain(TK.iter()).chain(TV.iter()) {
            a.store(0, SeqCst);
        }
        let g0 = self.global.sink.0.lock().unwrap().emits.len();
        let gh0 = self.global.handler.lock().unwrap().len();
        let r = panic::catch_unwind(AssertUnwindSafe(run_macro));
        let what = format!("{}!(\"key\", {:?}{})", mac, val, (0..ntags).map(|i| format!(", \"t{}\" => \"v{}\"", i + 1, i + 1)).collect::<String>());
        if !self.set {
            // no global client: the macro must panic, and nothing else
            if r.is_ok() {
                self.bad(&["C17"], "no-panic-when-unset", format!("{} did not panic although no global client is set", what));
            } else {
                self.rep.flag("panicked-when-unset");
            }
            return;
        }
        if let Err(p) = r {
            self.bad(&["C17", "C20"], "panic-when-set", format!("{} panicked although a global client is set: {}", what, crate::common::payload_str(&*p)));
            return;
        }
        // single evaluation of every argument
        let counts: Vec<usize> = [&K, &V].into_iter().chain(TK.iter().take(ntags)).chain(TV.iter().take(ntags)).map(|a| a.load(SeqCst)).collect();
        if counts.iter().any(|c| *c != 1) {
            self.bad(&["C17"], "argument-evaluated-not-once", format!("{}: evaluation counts of (key, value, tag keys.., tag values..) = {:?}, expected all 1", what, counts));
        }
        let g_emits: Vec<String> = self.global.sink.0.lock().unwrap().emits[g0..].to_vec();
        let g_handled: Vec<Failure> = self.global.handler.lock().unwrap()[gh0..].to_vec();
        // the same through the explicit tagged quiet send on the twin
        let t0 = self.twin.sink.0.lock().unwrap().emits.len();
        let th0 = self.twin.handler.lock().unwrap().len();
        let twin_client = self.twin.client.clone().unwrap();
        run_twin(&twin_client);
        let t_emits: Vec<String> = self.twin.sink.0.lock().unwrap().emits[t0..].to_vec();
        let t_handled: Vec<Failure> = self.twin.handler.lock().unwrap()[th0..].to_vec();
        if g_emits != t_emits {
            self.bad(&["C17"], "macro-differs-from-explicit-call", format!("{} handed the sink {:?} but the explicit tagged quiet send hands it {:?}", what, g_emits, t_emits));
        }
        let strip = |v: &[Failure]| -> Vec<(cadence::ErrorKind, Option<std::io::ErrorKind>)> { v.iter().map(|f| (f.kind, f.io_kind)).collect() };
        if strip(&g_handled) != strip(&t_handled) {
            self.bad(&["C17"], "handler-differs-from-explicit-call", format!("{}: the global client's error handler saw {:?} but with the explicit tagged quiet send it sees {:?}", what, strip(&g_handled), strip(&t_handled)));
        }
        if let Some(s2) = &self.second_sink {
            if !s2.0.lock().unwrap().emits.is_empty() {
                self.bad(&["C17", "C18"], "second-set-took-effect", format!("{} went to the client of the second (ignored) set_global_default", what));
            }
        }
        // and the line itself against the reference formatter (C01 / C04 for the macro form)
        let steps: Vec<Step> = (0..ntags).map(|i| Step::Tag(format!("t{}", i + 1), format!("v{}", i + 1))).collect();
        match reffmt::values(row, val) {
            Ok(vals) => {
                let sec = reffmt::sections(&self.cfg, &steps);
                let pieces = reffmt::expected(&self.cfg, row, "key", &vals, &sec);
                if g_emits.len() != 1 {
                    self.bad(&["C17", "C01", "C03"], "emit-count", format!("{} handed the sink {} strings: {:?}", what, g_emits.len(), g_emits));
                } else if let Err(why) = reffmt::matches(&g_emits[0], &pieces) {
                    self.bad(&["C17", "C01", "C04"], "line-differs", format!("{} emitted {:?}: {}", what, g_emits[0], why));
                }
                if self.cfg.prefix == "alt" {
                    // outcomes alternate: the comparison with the twin (same answers) decides
                    self.rep.flag("unreliable-sink");
                    if g_handled.len() > 1 {
                        self.bad(&["C17", "C03"], "handler-count", format!("{}: the handler ran {} times for one metric", what, g_handled.len()));
                    }
                } else if self.failing {
                    self.rep.flag("failing-sink");
                    if self.with_handler && g_handled.len() != 1 {
                        self.bad(&["C17", "C03"], "handler-count", format!("{}: the sink refused the metric; the handler ran {} times", what, g_handled.len()));
                    }
                } else if !g_handled.is_empty() {
                    self.bad(&["C17", "C03"], "handler-on-success", format!("{} succeeded but the handler saw {:?}", what, g_handled));
                }
            }
            Err(()) => {
                self.rep.flag("invalid-value");
                if !g_emits.is_empty() {
                    self.bad(&["C17", "C01", "C03"], "invalid-value-sent", format!("{} handed the sink {:?} for a value that cannot be sent", what, g_emits));
                }
                if self.with_handler && (g_handled.len() != 1 || g_handled[0].kind != cadence::ErrorKind::InvalidInput) {
                    self.bad(&["C17", "C03"], "invalid-value-not-reported", format!("{}: the handler saw {:?} (expected one invalid-input error)", what, g_handled));
                }
            }
        }
        if ntags == 3 && self.rep.samples.len() < 2 && !g_emits.is_empty() {
            self.rep.sample(Json::obj().set("macro", what).set("line", g_emits[0].clone()).set("cfg", &self.cfg_name));
        }
    }
}

macro_rules! probe {
    ($ctx:expr, $mac:ident, $method:ident, $row:expr, $val:expr, $venum:expr) => {{
        let row = &ROWS[$row];
        let venum: Val = $venum;
        $ctx.case(
            stringify!($mac),
            row,
            &venum,
            0,
            &|| {
                cadence_macros::$mac!(
                    {
                        K.fetch_add(1, SeqCst);
                        "key"
                    },
                    {
                        V.fetch_add(1, SeqCst);
                        $val
                    }
                );
            },
            &|c: &StatsdClient| {
                c.$method("key", $val).send();
            },
        );
        $ctx.case(
            stringify!($mac),
            row,
            &venum,
            1,
            &|| {
                cadence_macros::$mac!(
                    {
                        K.fetch_add(1, SeqCst);
                        "key"
                    },
                    {
                        V.fetch_add(1, SeqCst);
                        $val
                    },
                    {
                        TK[0].fetch_add(1, SeqCst);
                        "t1"
                    } => {
                        TV[0].fetch_add(1, SeqCst);
                        "v1"
                    }
                );
            },
            &|c: &StatsdClient| {
                c.$method("key", $val).with_tag("t1", "v1").send();
            },
        );
        $ctx.case(
            stringify!($mac),
            row,
            &venum,
            2,
            &|| {
                cadence_macros::$mac!(
                    {
                        K.fetch_add(1, SeqCst);
                        "key"
                    },
                    {
                        V.fetch_add(1, SeqCst);
                        $val
                    },
                    {
                        TK[0].fetch_add(1, SeqCst);
                        "t1"
                    } => {
                        TV[0].fetch_add(1, SeqCst);
                        "v1"
                    },
                    {
                        TK[1].fetch_add(1, SeqCst);
                        "t2"
                    } => {
                        TV[1].fetch_add(1, SeqCst);
                        "v2"
                    }
                );
            },
            &|c: &StatsdClient| {
                c.$method("key", $val).with_tag("t1", "v1").with_tag("t2", "v2").send();
            },
        );
        $ctx.case(
            stringify!($mac),
            row,
            &venum,
            3,
            &|| {
                cadence_macros::$mac!(
                    {
                        K.fetch_add(1, SeqCst);
                        "key"
                    },
                    {
                        V.fetch_add(1, SeqCst);
                        $val
                    },
                    {
                        TK[0].fetch_add(1, SeqCst);
                        "t1"
                    } => {
                        TV[0].fetch_add(1, SeqCst);
                        "v1"
                    },
                    {
                        TK[1].fetch_add(1, SeqCst);
                        "t2"
                    } => {
                        TV[1].fetch_add(1, SeqCst);
                        "v2"
                    },
                    {
                        TK[2].fetch_add(1, SeqCst);
                        "t3"
                    } => {
                        TV[2].fetch_add(1, SeqCst);
                        "v3"
                    }
                );
            },
            &|c: &StatsdClient| {
                c.$method("key", $val).with_tag("t1", "v1").with_tag("t2", "v2").with_tag("t3", "v3").send();
            },
        );
    }};
}

/// Runs in the child process.
pub fn run_child(spec: &crate::Spec) -> Report {
    let name = spec.str("cfg", "A");
    let (cfg, failing, with_handler, set, twice) = match name.as_str() {
        "A" => (ClientCfg { prefix: "p".into(), ..Default::default() }, false, true, true, false),
        "B" => (ClientCfg::default(), false, true, true, false),
        "C" => (
            ClientCfg {
                prefix: "svc.".into(),
                tags: vec![(Some("dk".into()), "dv".into()), (None, "db".into())],
                container: Some("dc".into()),
            },
            false,
            true,
            true,
            false,
        ),
        "D" => (ClientCfg { prefix: "p".into(), ..Default::default() }, true, true, true, false),
        "E" => (ClientCfg { prefix: "p".into(), ..Default::default() }, true, false, true, false),
        "F" => (ClientCfg { prefix: "one".into(), ..Default::default() }, false, true, true, true),
        "G" => (ClientCfg { prefix: "late".into(), ..Default::default() }, false, true, true, false),
        // an unreliable sink: some metrics are refused (with different errors), others accepted
        "H" => (ClientCfg { prefix: "alt".into(), tags: vec![(None, "".into())], container: None }, false, true, true, false),
        // another thread uses the macros before the client is set and again afterwards
        "T" => (ClientCfg { prefix: "thr".into(), ..Default::default() }, false, true, true, false),
        _ => (ClientCfg::default(), false, true, false, false),
    };
    let (gc, gs, gh) = build(&cfg, failing, with_handler);
    let (tc, ts, th) = build(&cfg, failing, with_handler);
    let mut second_sink = None;
    let mut early_panics = 0;
    if name == "G" {
        // the macros are used (and panic) before any client is set; that must not stick
        for _ in 0..2 {
            if panic::catch_unwind(|| {
                cadence_macros::statsd_count!("early", 1i64);
            })
            .is_err()
            {
                early_panics += 1;
            }
            if panic::catch_unwind(|| {
                cadence_macros::statsd_gauge!("early", 1.5f64, "a" => "b");
            })
            .is_err()
            {
                early_panics += 1;
            }
        }
    }
    // configuration T: a second thread uses the macros before the client is set (they panic there),
    // stays alive, and uses them again once the main thread has set the client
    let mut early_thread = None;
    if name == "T" {
        let (to_thread, from_main) = std::sync::mpsc::channel::<()>();
        let (to_main, from_thread) = std::sync::mpsc::channel::<usize>();
        let h = std::thread::spawn(move || {
            let mut panics = 0;
            for _ in 0..2 {
                if panic::catch_unwind(|| {
                    cadence_macros::statsd_count!("early.thread", 1i64);
                })
                .is_err()
                {
                    panics += 1;
                }
                if panic::catch_unwind(|| {
                    cadence_macros::statsd_time!("early.thread", 3u64, "a" => "b");
                })
                .is_err()
                {
                    panics += 1;
                }
            }
            let unset_seen = !cadence_macros::is_global_default_set() && cadence_macros::get_global_default().is_err();
            to_main.send(panics + if unset_seen { 100 } else { 0 }).unwrap();
            from_main.recv().unwrap();
            // the client is set now
            let after = panic::catch_unwind(|| {
                cadence_macros::statsd_count!("late.thread", 2i64);
                cadence_macros::statsd_gauge!("late.thread.g", 4u64, "a" => "b");
            });
            let set_seen = cadence_macros::is_global_default_set() && cadence_macros::get_global_default().is_ok();
            to_main.send(if after.is_ok() { 1 } else { 0 } + if set_seen { 100 } else { 0 }).unwrap();
        });
        let first = from_thread.recv().unwrap();
        early_thread = Some((h, to_thread, from_thread, first));
    }
    if set {
        if cadence_macros::is_global_default_set() {
            let mut r = Report::new(&spec.raw);
            r.errors.push("a global client is already set in this process".into());
            return r;
        }
        cadence_macros::set_global_default(gc);
        if twice {
            let other = ClientCfg {
                prefix: "two".into(),
                ..Default::default()
            };
            let (c2, s2, _) = build(&other, false, true);
            cadence_macros::set_global_default(c2);
            second_sink = Some(s2);
        }
    }
    let mut ctx = Ctx {
        rep: Report::new(&spec.raw),
        cfg,
        cfg_name: name.clone(),
        global: Side {
            client: None,
            sink: gs,
            handler: gh,
        },
        twin: Side {
            client: Some(Arc::new(tc)),
            sink: ts,
            handler: th,
        },
        set,
        failing,
        with_handler,
        second_sink,
    };
    let _ = &ctx.global.client;
    if set != cadence_macros::is_global_default_set() {
        ctx.bad(&["C17", "C18"], "is-set-wrong", format!("is_global_default_set() = {} after {} set calls", !set, if set { "one or two" } else { "no" }));
    }
    if let Some((h, to_thread, from_thread, first)) = early_thread {
        ctx.rep.flag("macros-used-on-another-thread-before-set");
        ctx.rep.evaluations += 2;
        if first != 104 {
            ctx.bad(&["C17", "C18"], "no-panic-when-unset", format!("on a second thread, before any client was set: {} of 4 macro calls panicked, 'not set' reported: {}", first % 100, first >= 100));
        }
        let g0 = ctx.global.sink.0.lock().unwrap().emits.len();
        to_thread.send(()).unwrap();
        let second = from_thread.recv().unwrap_or(0);
        let _ = h.join();
        let emits: Vec<String> = ctx.global.sink.0.lock().unwrap().emits[g0..].to_vec();
        if second != 101 {
            ctx.bad(&["C17", "C18"], "panic-when-set", format!("a thread that had used the macros before the client was set used them again afterwards: completed without panic: {}, client reported as set: {}", second % 100 == 1, second >= 100));
        } else if emits != vec!["thr.late.thread:2|c".to_string(), "thr.late.thread.g:4|g|#a:b".to_string()] {
            ctx.bad(&["C17"], "macro-differs-from-explicit-call", format!("macros used on a second thread after the client was set handed the sink {:?}", emits));
        }
    }
    if name == "G" {
        ctx.rep.flag("macros-used-before-set");
        if early_panics != 4 {
            ctx.bad(&["C17"], "no-panic-when-unset", format!("only {} of 4 macro calls made before any client was set panicked", early_panics));
        }
    }
    if set {
        ctx.rep.flag("global-client-set");
        if twice {
            ctx.rep.flag("set-called-twice");
        }
    }
    let d = Duration::from_millis;
    probe!(ctx, statsd_count, count_with_tags, 0, 4i64, Val::I64(4));
    probe!(ctx, statsd_count, count_with_tags, 1, -7i32, Val::I32(-7));
    probe!(ctx, statsd_count, count_with_tags, 2, 9u64, Val::U64(9));
    probe!(ctx, statsd_count, count_with_tags, 3, 3u32, Val::U32(3));
    probe!(ctx, statsd_time, time_with_tags, 4, 5u64, Val::U64(5));
    probe!(ctx, statsd_time, time_with_tags, 5, d(1500), Val::Dur(d(1500)));
    probe!(ctx, statsd_time, time_with_tags, 5, Duration::MAX, Val::Dur(Duration::MAX));
    probe!(ctx, statsd_time, time_with_tags, 6, vec![1u64, 2], Val::VU64(vec![1, 2]));
    probe!(ctx, statsd_time, time_with_tags, 7, vec![d(3), d(1000)], Val::VDur(vec![d(3), d(1000)]));
    probe!(ctx, statsd_gauge, gauge_with_tags, 8, 7u64, Val::U64(7));
    probe!(ctx, statsd_gauge, gauge_with_tags, 9, 1.5f64, Val::F64(1.5));
    probe!(ctx, statsd_meter, meter_with_tags, 10, 2u64, Val::U64(2));
    probe!(ctx, statsd_histogram, histogram_with_tags, 11, 11u64, Val::U64(11));
    probe!(ctx, statsd_histogram, histogram_with_tags, 12, 2.5f64, Val::F64(2.5));
    probe!(ctx, statsd_histogram, histogram_with_tags, 13, Duration::from_nanos(17), Val::Dur(Duration::from_nanos(17)));
    probe!(ctx, statsd_histogram, histogram_with_tags, 14, vec![1u64, 2, 3], Val::VU64(vec![1, 2, 3]));
    probe!(ctx, statsd_histogram, histogram_with_tags, 14, Vec::<u64>::new(), Val::VU64(vec![]));
    probe!(ctx, statsd_histogram, histogram_with_tags, 15, vec![0.5f64, 1.5], Val::VF64(vec![0.5, 1.5]));
    probe!(ctx, statsd_histogram, histogram_with_tags, 16, vec![Duration::from_nanos(5)], Val::VDur(vec![Duration::from_nanos(5)]));
    probe!(ctx, statsd_distribution, distribution_with_tags, 17, 8u64, Val::U64(8));
    probe!(ctx, statsd_distribution, distribution_with_tags, 18, -0.25f64, Val::F64(-0.25));
    probe!(ctx, statsd_distribution, distribution_with_tags, 19, vec![4u64, 5], Val::VU64(vec![4, 5]));
    probe!(ctx, statsd_distribution, distribution_with_tags, 20, vec![1.25f64], Val::VF64(vec![1.25]));
    probe!(ctx, statsd_set, set_with_tags, 21, -3i64, Val::I64(-3));
    // tags with an empty value, an empty key and a repeated key are passed through like any other
    {
        let row = &ROWS[0];
        let odd: [(&str, &str); 3] = [("t1", ""), ("", "v2"), ("t1", "again")];
        let g0 = ctx.global.sink.0.lock().unwrap().emits.len();
        let r = panic::catch_unwind(|| {
            cadence_macros::statsd_count!("key", 6i64, "t1" => "", "" => "v2", "t1" => "again");
        });
        ctx.rep.evaluations += 1;
        if ctx.set {
            let emits: Vec<String> = ctx.global.sink.0.lock().unwrap().emits[g0..].to_vec();
            let steps: Vec<Step> = odd.iter().map(|(k, v)| Step::Tag(k.to_string(), v.to_string())).collect();
            let vals = reffmt::values(row, &Val::I64(6)).unwrap();
            let pieces = reffmt::expected(&ctx.cfg, row, "key", &vals, &reffmt::sections(&ctx.cfg, &steps));
            if r.is_err() {
                ctx.bad(&["C17", "C20"], "panic-when-set", "statsd_count! with empty / repeated tags panicked".into());
            } else if emits.len() != 1 || reffmt::matches(&emits[0], &pieces).is_err() {
                ctx.bad(&["C17", "C01"], "odd-tags-differ", format!("statsd_count!(\"key\", 6, \"t1\" => \"\", \"\" => \"v2\", \"t1\" => \"again\") emitted {:?}", emits));
            }
        }
    }
    // a macro used inside the argument of another macro (the inner one runs first, both send)
    if set {
        let g0 = ctx.global.sink.0.lock().unwrap().emits.len();
        let r = panic::catch_unwind(|| {
            cadence_macros::statsd_gauge!(
                "outer",
                {
                    cadence_macros::statsd_count!("inner", 2i64, "where" => "argument");
                    5u64
                },
                "t" => {
                    cadence_macros::statsd_set!("inner.tag", 9i64);
                    "v"
                }
            );
        });
        ctx.rep.evaluations += 1;
        let emits: Vec<String> = ctx.global.sink.0.lock().unwrap().emits[g0..].to_vec();
        if r.is_err() {
            ctx.bad(&["C17", "C20"], "nested-macro-panicked", "a statsd_*! macro used inside the argument of another one panicked".into());
        } else if emits.len() != 3 || !emits[0].contains("inner:2|c") || !emits[1].contains("inner.tag:9|s") || !emits[2].contains("outer:5|g") {
            ctx.bad(&["C17"], "nested-macro-differs", format!("statsd_gauge!(\"outer\", {{ statsd_count!(\"inner\", 2, ..); 5 }}, \"t\" => {{ statsd_set!(\"inner.tag\", 9); \"v\" }}) handed the sink {:?}; the explicit calls send the two inner metrics and then the outer one", emits));
        }
        ctx.rep.flag("macro-nested-in-argument");
    }
    // threads other than the one that set the client; macros and lookups from a thread-local's
    // destructor while the thread exits (after the thread has used a macro before)
    if set {
        struct AtExit;
        impl Drop for AtExit {
            fn drop(&mut self) {
                cadence_macros::statsd_count!("at.exit", 1i64, "from" => "tls-destructor");
                let _ = cadence_macros::get_global_default().map(|c| c.incr("at.exit.direct"));
                if !cadence_macros::is_global_default_set() {
                    panic!("not set inside a thread-local destructor");
                }
            }
        }
        thread_local! {
            static EARLY: AtExit = const { AtExit };
            static LATE: AtExit = const { AtExit };
        }
        let g0 = ctx.global.sink.0.lock().unwrap().emits.len();
        eprintln!("CASE macros from thread-local destructors at thread exit");
        let t = std::thread::spawn(|| {
            // touch one thread-local before the first macro use and one after it: destructors run
            // in reverse order of initialisation
            EARLY.with(|_| {});
            cadence_macros::statsd_count!("in.thread", 1i64);
            LATE.with(|_| {});
            cadence_macros::statsd_gauge!("in.thread.g", 2u64, "a" => "b");
        });
        let joined = t.join();
        ctx.rep.evaluations += 1;
        let emits: Vec<String> = ctx.global.sink.0.lock().unwrap().emits[g0..].to_vec();
        let at_exit = emits.iter().filter(|e| e.contains("at.exit:1|c")).count();
        let direct = emits.iter().filter(|e| e.contains("at.exit.direct:1|c")).count();
        if joined.is_err() {
            ctx.bad(&["C17", "C18", "C20"], "macro-in-tls-destructor-panicked", "a thread that uses the macros (and get_global_default) from thread-local destructors panicked while exiting".into());
        } else if at_exit != 2 || direct != 2 {
            ctx.bad(&["C17", "C18"], "macro-in-tls-destructor-differs", format!("macros / get_global_default used from two thread-local destructors at thread exit sent {:?}", emits));
        }
        ctx.rep.flag("macro-in-thread-local-destructor");
    }
    if set {
        // the global client is still the first one and still set
        if !cadence_macros::is_global_default_set() || cadence_macros::get_global_default().is_err() {
            ctx.bad(&["C17", "C18"], "global-lost", "the global client is no longer set after the macro calls".into());
        }
    }
    ctx.rep
}
