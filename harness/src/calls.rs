//! seqx/calls: one call, at most one emit; results and the error handler tell the truth (C03).
use crate::api::{self, call, Answer, ClientCfg, Form, Row, Step, Val, ROWS, VT};
use crate::common::{Report, Violation};
use crate::fmt::{sequences, values_for};
use crate::json::Json;
use crate::reffmt;
use cadence::ErrorKind;
use std::io;
use std::panic::{self, AssertUnwindSafe};
use std::time::Duration;

const KINDS: [io::ErrorKind; 6] = [
    io::ErrorKind::Other,
    io::ErrorKind::WouldBlock,
    io::ErrorKind::BrokenPipe,
    io::ErrorKind::InvalidInput,
    io::ErrorKind::Interrupted,
    io::ErrorKind::TimedOut,
];

#[derive(Clone, Debug)]
struct OneCall {
    row: &'static Row,
    form: Form,
    val: Val,
    steps: Vec<Step>,
    answer: Answer,
}

fn rejected_value(vt: VT) -> Option<Val> {
    match vt {
        VT::Dur => Some(Val::Dur(Duration::MAX)),
        VT::VDur => Some(Val::VDur(vec![Duration::new(1, 0), Duration::MAX])),
        VT::VU64 => Some(Val::VU64(vec![])),
        VT::VF64 => Some(Val::VF64(vec![])),
        _ => None,
    }
}

fn bad(rep: &mut Report, sig: &str, what: String, hist: &[OneCall], at: usize) {
    let doc = Json::Arr(
        hist.iter()
            .map(|c| {
                Json::obj()
                    .set("entry_point", c.row.name)
                    .set("form", format!("{:?}", c.form))
                    .set("value", format!("{:?}", c.val))
                    .set("builder_calls", format!("{:?}", c.steps))
                    .set("sink_answer", format!("{:?}", c.answer))
            })
            .collect(),
    );
    // text handed to the sink that is not the call's own line is also a formatting fault (C01)
    let props = if matches!(sig, "wrong-text" | "emit-count" | "emit-on-rejected") { vec!["C03", "C01"] } else { vec!["C03"] };
    rep.violation(Violation {
        props,
        sig: format!("calls/{}", sig),
        what: format!("call #{} of {}: {}", at, doc.render(), what),
        replay: Json::obj().set("engine", "calls").set("history", doc),
    });
}

/// Run a history of calls on ONE client and judge every call.
fn run_history(rep: &mut Report, cfg: &ClientCfg, hist: &[OneCall]) {
    let rig = api::build(cfg);
    rep.traces += 1;
    for (i, c) in hist.iter().enumerate() {
        rep.evaluations += 1;
        let (emits0, handled0, refused0) = {
            let s = rig.sink.0.lock().unwrap();
            (s.emits.len(), rig.handler.lock().unwrap().len(), s.refused_ids.len())
        };
        rig.sink.0.lock().unwrap().script = [c.answer].into_iter().collect();
        let res = panic::catch_unwind(AssertUnwindSafe(|| call(&rig.client, c.row, c.form, "k", &c.val, &c.steps)));
        let res = match res {
            Ok(r) => r,
            Err(p) => {
                rep.violation(Violation {
                    props: vec!["C03", "C20"],
                    sig: "calls/panic".into(),
                    what: format!("call {:?} panicked: {}", c, crate::common::payload_str(&*p)),
                    replay: Json::obj().set("engine", "calls"),
                });
                return;
            }
        };
        let (emits, handled, refused) = {
            let s = rig.sink.0.lock().unwrap();
            (s.emits[emits0..].to_vec(), rig.handler.lock().unwrap()[handled0..].to_vec(), s.refused_ids[refused0..].to_vec())
        };
        // leftover script entries mean the sink was not consulted
        rig.sink.0.lock().unwrap().script.clear();
        let valid = reffmt::values(c.row, &c.val);
        match valid {
            Err(()) => {
                rep.flag("rejected-value");
                if !emits.is_empty() {
                    bad(rep, "emit-on-rejected", format!("a rejected value handed the sink {:?}", emits), hist, i);
                }
                match (&res, c.form) {
                    (Some(Err(f)), _) if f.kind == ErrorKind::InvalidInput => {
                        if !handled.is_empty() {
                            bad(rep, "handler-on-returning-form", format!("the error was returned and also sent to the handler: {:?}", handled), hist, i);
                        }
                    }
                    (None, Form::Send) => {
                        if handled.len() != 1 || handled[0].kind != ErrorKind::InvalidInput {
                            bad(rep, "quiet-invalid-handler", format!("quiet send of a rejected value: handler saw {:?} (expected exactly one invalid-input error)", handled), hist, i);
                        }
                    }
                    (other, _) => bad(rep, "rejected-not-invalid-input", format!("rejected value returned {:?}", other), hist, i),
                }
            }
            Ok(vals) => {
                let sec = reffmt::sections(cfg, &c.steps);
                let pieces = reffmt::expected(cfg, c.row, "k", &vals, &sec);
                if emits.len() != 1 {
                    bad(rep, "emit-count", format!("a valid call handed the sink {} strings {:?}", emits.len(), emits), hist, i);
                    continue;
                }
                if let Err(why) = reffmt::matches(&emits[0], &pieces) {
                    bad(rep, "wrong-text", format!("emitted {:?}: {}", emits[0], why), hist, i);
                }
                match c.answer {
                    Answer::Accept => {
                        rep.flag("accepted");
                        match (&res, c.form) {
                            (Some(Ok(text)), _) => {
                                if *text != emits[0] {
                                    bad(rep, "ok-text-differs", format!("returned Ok({:?}) but the sink accepted {:?}", text, emits[0]), hist, i);
                                }
                            }
                            (None, Form::Send) => {}
                            (other, _) => bad(rep, "error-on-accept", format!("the sink accepted {:?} but the call returned {:?}", emits[0], other), hist, i),
                        }
                        if !handled.is_empty() {
                            bad(rep, "handler-on-success", format!("the sink accepted the metric but the handler saw {:?}", handled), hist, i);
                        }
                    }
                    Answer::Refuse(kind) => {
                        rep.flag("refused");
                        let id = refused.first().copied();
                        let same = |f: &api::Failure| f.kind == ErrorKind::IoError && f.injected == id && f.io_kind == Some(kind);
                        match (&res, c.form) {
                            (Some(Err(f)), _) => {
                                if !same(f) {
                                    bad(rep, "wrong-error", format!("the sink refused with {:?} (#{:?}) but the call returned {:?}", kind, id, f), hist, i);
                                }
                                if !handled.is_empty() {
                                    bad(rep, "handler-on-returning-form", format!("the error was returned and also sent to the handler: {:?}", handled), hist, i);
                                }
                            }
                            (None, Form::Send) => {
                                if handled.len() != 1 || !same(&handled[0]) {
                                    bad(rep, "quiet-refusal-handler", format!("the sink refused with {:?} (#{:?}); the handler saw {:?} (expected exactly that error once)", kind, id, handled), hist, i);
                                }
                            }
                            (other, _) => bad(rep, "ok-on-refusal", format!("the sink refused the metric but the call returned {:?}", other), hist, i),
                        }
                    }
                }
            }
        }
    }
}

/// The client's error handler, and the sink, may themselves use the library (report the failure
/// as a metric through another client, forward to another client): a quiet send nested inside
/// another call on the same thread must behave like any other.
fn reentrant(rep: &mut Report) {
    use cadence::prelude::*;
    use cadence::{MetricSink, StatsdClient};
    use std::sync::{Arc, Mutex};
    struct Forward {
        inner: StatsdClient,
        log: Arc<Mutex<Vec<String>>>,
        refuse: bool,
    }
    impl MetricSink for Forward {
        fn emit(&self, m: &str) -> io::Result<usize> {
            self.log.lock().unwrap().push(format!("outer:{}", m));
            // forward a derived metric through another client, quietly
            self.inner.count_with_tags("forwarded", 1).with_tag("from", "sink").send();
            let _ = self.inner.gauge("forwarded.len", m.len() as u64);
            if self.refuse {
                Err(io::Error::new(io::ErrorKind::BrokenPipe, crate::writer::Injected(7)))
            } else {
                Ok(m.len())
            }
        }
    }
    impl std::panic::RefUnwindSafe for Forward {}
    for refuse in [false, true] {
        for form in [Form::Plain, Form::TrySend, Form::Send] {
            for row in [&ROWS[0], &ROWS[5], &ROWS[15]] {
                rep.evaluations += 1;
                rep.distinct(&format!("reentrant {} {:?} {}", refuse, form, row.name));
                let inner_rig = api::build(&ClientCfg { prefix: "in".into(), ..Default::default() });
                let handler_rig = api::build(&ClientCfg { prefix: "err".into(), ..Default::default() });
                let log = Arc::new(Mutex::new(vec![]));
                let handled = Arc::new(Mutex::new(0usize));
                let (h2, hc) = (handled.clone(), handler_rig.client);
                let outer = StatsdClient::builder("out", Forward { inner: inner_rig.client, log: log.clone(), refuse })
                    .with_error_handler(move |_e| {
                        *h2.lock().unwrap() += 1;
                        // report the failure as a metric through yet another client
                        hc.count_with_tags("client.errors", 1).send();
                        let _ = hc.incr("client.errors.plain");
                    })
                    .build();
                let val = values_for(row.vt, false).into_iter().find(|v| reffmt::values(row, v).is_ok()).unwrap();
                let steps = vec![Step::Tag("a".into(), "b".into())];
                let r = panic::catch_unwind(AssertUnwindSafe(|| call(&outer, row, form, "k", &val, if form == Form::Plain { &[] } else { &steps })));
                let what = format!("{} {:?} on a client whose sink forwards through a second client and whose handler reports through a third (sink refuses: {})", row.name, form, refuse);
                match r {
                    Err(p) => {
                        rep.violation(Violation {
                            props: vec!["C03", "C20"],
                            sig: "calls/reentrant-panic".into(),
                            what: format!("{} panicked: {}", what, crate::common::payload_str(&*p)),
                            replay: Json::obj().set("engine", "calls").set("case", what.clone()),
                        });
                        continue;
                    }
                    Ok(res) => {
                        let outer_emits = log.lock().unwrap().len();
                        let inner_emits = inner_rig.sink.0.lock().unwrap().emits.len();
                        let handler_emits = handler_rig.sink.0.lock().unwrap().emits.len();
                        let n_handled = *handled.lock().unwrap();
                        let want_handled = if refuse && form == Form::Send { 1 } else { 0 };
                        let ok_shape = match (&res, refuse, form) {
                            (None, _, Form::Send) => true,
                            (Some(Ok(_)), false, _) => true,
                            (Some(Err(f)), true, _) => f.kind == ErrorKind::IoError && f.injected == Some(7),
                            _ => false,
                        };
                        if outer_emits != 1 || inner_emits != 2 || n_handled != want_handled || handler_emits != 2 * want_handled || !ok_shape {
                            rep.violation(Violation {
                                props: vec!["C03"],
                                sig: "calls/reentrant-differs".into(),
                                what: format!("{}: outer sink saw {} strings (1 expected), the forwarded client {} (2), the handler ran {} times ({}), its client saw {} ({}), result {:?}", what, outer_emits, inner_emits, n_handled, want_handled, handler_emits, 2 * want_handled, res),
                                replay: Json::obj().set("engine", "calls").set("case", what.clone()),
                            });
                        }
                    }
                }
            }
        }
    }
    rep.flag("reentrant-handler-and-sink");
    // the handler of one client reports through a second client whose sink refuses too: the second
    // client's own handler sees that failure, once (nothing about a failure is per thread)
    {
        struct Refuse(u32);
        impl MetricSink for Refuse {
            fn emit(&self, _m: &str) -> io::Result<usize> {
                Err(io::Error::new(io::ErrorKind::BrokenPipe, crate::writer::Injected(self.0 as usize)))
            }
        }
        for rounds in [1usize, 3] {
            rep.evaluations += 1;
            let inner_seen = Arc::new(Mutex::new(0usize));
            let outer_seen = Arc::new(Mutex::new(0usize));
            let i2 = inner_seen.clone();
            let second = StatsdClient::builder("second", Refuse(2)).with_error_handler(move |_e| *i2.lock().unwrap() += 1).build();
            let o2 = outer_seen.clone();
            let first = StatsdClient::builder("first", Refuse(1))
                .with_error_handler(move |_e| {
                    *o2.lock().unwrap() += 1;
                    second.count_with_tags("first.failed", 1).send();
                })
                .build();
            let r = panic::catch_unwind(AssertUnwindSafe(|| {
                for _ in 0..rounds {
                    first.count_with_tags("k", 1).send();
                }
            }));
            let (o, i) = (*outer_seen.lock().unwrap(), *inner_seen.lock().unwrap());
            if r.is_err() || o != rounds || i != rounds {
                rep.violation(Violation {
                    props: if r.is_err() { vec!["C03", "C20"] } else { vec!["C03"] },
                    sig: "calls/nested-failure-handlers".into(),
                    what: format!("{} failing quiet sends on a client whose handler sends through a second client with a refusing sink: first handler ran {} times, second handler {} times (expected {} each), panicked: {}", rounds, o, i, rounds, r.is_err()),
                    replay: Json::obj().set("engine", "calls").set("case", "nested-failure-handlers"),
                });
            }
        }
        rep.flag("failure-inside-the-error-handler");
        // a handler that panics (user code) does not disable reporting of later failures
        rep.evaluations += 1;
        let seen = Arc::new(Mutex::new(0usize));
        let s2 = seen.clone();
        let c = StatsdClient::builder("p", Refuse(3))
            .with_error_handler(move |_e| {
                let mut n = s2.lock().unwrap_or_else(|e| e.into_inner());
                *n += 1;
                if *n == 1 {
                    drop(n);
                    panic::panic_any(crate::rt::ScriptedPanic("the user's handler panics once".into()));
                }
            })
            .build();
        let _ = panic::catch_unwind(AssertUnwindSafe(|| c.count_with_tags("k", 1).send()));
        let later = panic::catch_unwind(AssertUnwindSafe(|| {
            c.count_with_tags("k", 2).send();
            c.gauge_with_tags("g", 3u64).send();
        }));
        let n = *seen.lock().unwrap_or_else(|e| e.into_inner());
        if later.is_err() || n != 3 {
            rep.violation(Violation {
                props: vec!["C03"],
                sig: "calls/handler-after-handler-panic".into(),
                what: format!("after the user's error handler panicked once, two more failing quiet sends: the handler ran {} times in total (expected 3), later sends panicked: {}", n, later.is_err()),
                replay: Json::obj().set("engine", "calls").set("case", "handler-after-handler-panic"),
            });
        }
    }
}

pub fn run(spec: &crate::Spec) -> Report {
    let mut rep = Report::new(&spec.raw);
    if spec.str("part", "single") == "reentrant" {
        reentrant(&mut rep);
        // every io::ErrorKind and every errno as the sink's refusal
        let cfg = ClientCfg { prefix: "p".into(), ..Default::default() };
        for k in crate::sc_queue::ALL_KINDS.iter() {
            for form in [Form::Plain, Form::Send] {
                let c = OneCall { row: &ROWS[0], form, val: Val::I64(1), steps: vec![], answer: Answer::Refuse(*k) };
                rep.distinct(&format!("{:?}", c));
                run_history(&mut rep, &cfg, &[c.clone(), c]);
            }
        }
        rep.flag("all-error-kinds");
        return rep;
    }
    let thorough = spec.str("tier", "quick") == "thorough";
    let cfg = ClientCfg {
        prefix: "p".into(),
        ..Default::default()
    };
    let answers: Vec<Answer> = std::iter::once(Answer::Accept).chain(KINDS.iter().map(|k| Answer::Refuse(*k))).collect();
    match spec.str("part", "single").as_str() {
        "single" => {
            let row = &ROWS[spec.usize("row", 0)];
            let mut vals = values_for(row.vt, false);
            if let Some(r) = rejected_value(row.vt) {
                vals.push(r);
            }
            for form in [Form::Plain, Form::TrySend, Form::Send] {
                for val in &vals {
                    for ans in &answers {
                        let steps_list: Vec<Vec<Step>> = if form == Form::Plain { vec![vec![]] } else { vec![vec![], vec![Step::Tag("a".into(), "b".into()), Step::Rate(0.5)]] };
                        for steps in steps_list {
                            let c = OneCall {
                                row,
                                form,
                                val: val.clone(),
                                steps,
                                answer: *ans,
                            };
                            rep.distinct(&format!("{:?}", c));
                            // once alone, once twice in a row on the same client
                            run_history(&mut rep, &cfg, std::slice::from_ref(&c));
                            run_history(&mut rep, &cfg, &[c.clone(), c]);
                        }
                    }
                }
            }
            rep.sample(Json::obj().set("entry_point", row.name).set("answers", format!("{:?}", answers)));
        }
        _ => {
            // all sequences of <= n calls over a reduced call alphabet x all sink-answer scripts
            let n = if thorough { 4 } else { 3 };
            let ans: Vec<Answer> = vec![Answer::Accept, Answer::Refuse(io::ErrorKind::Other), Answer::Refuse(io::ErrorKind::Interrupted)];
            let mut alpha: Vec<OneCall> = vec![];
            let protos: Vec<(usize, Val)> = vec![
                (0, Val::I64(-3)),
                (5, Val::Dur(Duration::new(2, 0))),
                (5, Val::Dur(Duration::MAX)),
                (15, Val::VF64(vec![1.5, 2.0])),
                (15, Val::VF64(vec![])),
            ];
            for (ri, v) in &protos {
                for form in [Form::TrySend, Form::Send] {
                    for a in &ans {
                        alpha.push(OneCall {
                            row: &ROWS[*ri],
                            form,
                            val: v.clone(),
                            steps: vec![Step::TagValue("t".into())],
                            answer: *a,
                        });
                    }
                }
            }
            let (i, of) = (spec.usize("chunk", 0), spec.usize("of", 1));
            let mut count = 0usize;
            for first in alpha.iter().enumerate().filter(|(j, _)| j % of == i).map(|x| x.1) {
                for tail in sequences(&alpha, n - 1) {
                    let mut h = vec![first.clone()];
                    h.extend(tail);
                    rep.distinct(&format!("{:?}", h));
                    run_history(&mut rep, &cfg, &h);
                    count += 1;
                    if rep.full() {
                        return rep;
                    }
                }
            }
            rep.extra("histories", count);
            rep.sample(Json::obj().set("call_alphabet", alpha.len()).set("max_len", n));
        }
    }
    rep
}
